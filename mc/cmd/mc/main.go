// Command mc runs the model-checking scenarios of /verif against the current /repo tree.
//
//	mc check <PROP> [--tier quick|thorough] [--workers N] [--budget 240s]
//	mc replay <file.json>
package main

import (
	"crypto/sha256"
	"encoding/json"
	"flag"
	"fmt"
	"os"
	"os/exec"
	"path/filepath"
	"runtime"
	"sort"
	"strconv"
	"strings"
	"time"

	"verif/mc/engine"
	"verif/mc/scen"
)

const verifDir = "/verif"

// forceSingleWorker is set by the seam build: the map-order controller is process-global.
var forceSingleWorker bool

type knownFile struct {
	Findings []struct {
		Property string `json:"property"`
		Key      string `json:"key"` // exact key or prefix ending in '*'
		What     string `json:"what"`
	} `json:"findings"`
	Fixed []string `json:"fixed"`
}

func loadKnown() knownFile {
	var k knownFile
	bz, err := os.ReadFile(filepath.Join(verifDir, "known_findings.json"))
	if err == nil {
		_ = json.Unmarshal(bz, &k)
	}
	return k
}

func (k knownFile) match(f engine.Found) (string, bool) {
	for _, e := range k.Findings {
		if e.Property != f.Property {
			continue
		}
		if e.Key == f.Key || (strings.HasSuffix(e.Key, "*") && strings.HasPrefix(f.Key, strings.TrimSuffix(e.Key, "*"))) {
			return e.What, true
		}
	}
	return "", false
}

func main() {
	if len(os.Args) < 2 {
		fmt.Fprintln(os.Stderr, "usage: mc check <PROP> ... | mc replay <file>")
		os.Exit(2)
	}
	switch os.Args[1] {
	case "check":
		os.Exit(cmdCheck(os.Args[2:]))
	case "replay":
		os.Exit(cmdReplay(os.Args[2:]))
	case "list":
		for _, p := range scen.Properties() {
			fmt.Println(p)
		}
	default:
		fmt.Fprintln(os.Stderr, "unknown command")
		os.Exit(2)
	}
}

func cmdCheck(args []string) int {
	fs := flag.NewFlagSet("check", flag.ExitOnError)
	tier := fs.String("tier", envOr("VERIF_TIER", "quick"), "quick|thorough")
	workers := fs.Int("workers", runtime.NumCPU(), "parallel workers")
	budget := fs.Duration("budget", 0, "wall budget for the whole check (0 = tier default)")
	only := fs.String("only", "", "run only units whose name contains this")
	child := fs.Int("child", -1, "internal: run only unit #i and write its result as JSON to --child-out")
	childOut := fs.String("child-out", "", "internal")
	if len(args) < 1 {
		fmt.Fprintln(os.Stderr, "usage: mc check <PROP>")
		return 2
	}
	prop := args[0]
	_ = fs.Parse(args[1:])
	seed, _ := strconv.Atoi(envOr("VERIF_SEED", "0"))
	if forceSingleWorker {
		*workers = 1
	}
	spec, ok := scen.Spec(prop, *tier)
	if !ok {
		fmt.Fprintf(os.Stderr, "no check registered for %s\n", prop)
		return 2
	}
	if *budget == 0 {
		*budget = spec.Budget
	}
	start := time.Now()
	deadline := start.Add(*budget)
	known := loadKnown()

	type unitEv struct {
		Name        string           `json:"name"`
		Params      map[string]any   `json:"params,omitempty"`
		Kind        string           `json:"kind"`
		States      int64            `json:"states"`
		Transitions int64            `json:"transitions"`
		Executed    int64            `json:"events_executed_all_iterations"`
		Maximal     int64            `json:"maximal_traces"`
		Depth       int              `json:"depth_completed"`
		DepthTarget int              `json:"depth_target"`
		Exhaustive  bool             `json:"exhaustive"`
		Replayed    int              `json:"sample_traces_replayed_on_second_worker"`
		Outcomes    map[string]int64 `json:"distinct_outcomes,omitempty"`
		WallS       float64          `json:"wall_s"`
	}
	var units []unitEv
	var all []engine.Found
	var samples []any
	var states, trans, evals, nontrivial, validated int64
	exhaustive := true
	nUnits := len(spec.Units)
	if *child >= 0 {
		u := spec.Units[*child]
		r := u.Run(scen.RunCtx{Workers: 1, Deadline: deadline, Seed: seed, Prop: prop})
		if r.Err != nil {
			r.ErrStr, r.Err = r.Err.Error(), nil
		}
		bz, _ := json.Marshal(r)
		_ = os.WriteFile(*childOut, bz, 0o644)
		return 0
	}
	var fan map[int]scen.UnitResult
	if forceSingleWorker {
		fan = fanout(prop, *tier, nUnits, *budget, runtime.NumCPU(), *only, spec)
	}
	for i, u := range spec.Units {
		label := u.Name()
		if l, ok := u.(interface{ Label() string }); ok {
			label = l.Label()
		}
		if *only != "" && !strings.Contains(label, *only) {
			continue
		}
		// split the remaining budget evenly over the remaining units
		remain := time.Until(deadline)
		if remain < 5*time.Second {
			remain = 5 * time.Second
		}
		per := remain / time.Duration(nUnits-i)
		var r scen.UnitResult
		if fan != nil {
			r = fan[i]
		} else {
			r = u.Run(scen.RunCtx{Workers: *workers, Deadline: time.Now().Add(per), Seed: seed, Prop: prop})
		}
		units = append(units, unitEv{Name: r.Name, Params: r.Params, Kind: r.Kind, States: r.States, Transitions: r.Transitions,
			Executed: r.Executed, Maximal: r.Maximal, Depth: r.Depth, DepthTarget: r.DepthTarget, Exhaustive: r.Exhaustive,
			Replayed: r.Replayed, Outcomes: r.Outcomes, WallS: r.Wall.Seconds()})
		states += r.States
		trans += r.Transitions
		evals += r.Evaluations
		nontrivial += r.Nontrivial
		validated += r.Validated
		exhaustive = exhaustive && r.Exhaustive
		if len(samples) < 12 {
			pick := r.Samples
			if len(pick) > 3 { // the first maximal trace and the two latest alphabet-covering ones
				pick = []any{pick[0], pick[len(pick)-2], pick[len(pick)-1]}
			}
			for _, s := range pick {
				if len(samples) < 12 {
					samples = append(samples, map[string]any{"unit": r.Name, "params": r.Params, "case": s})
				}
			}
		}
		all = append(all, r.Found...)
		if r.Err != nil {
			fmt.Printf("ERROR unit=%s: %v\n", r.Name, r.Err)
			all = append(all, engine.Found{Violation: engine.Violation{Property: "HARNESS", Key: "unit-error:" + r.Name, Msg: r.Err.Error()}, Scenario: r.Name})
		}
		fmt.Printf("unit %-28s %-40v depth %d/%d states=%d transitions=%d evals=%d exhaustive=%v found=%d (%.1fs)\n",
			r.Name, fmtParams(r.Params), r.Depth, r.DepthTarget, r.States, r.Transitions, r.Evaluations, r.Exhaustive, len(r.Found), r.Wall.Seconds())
	}

	// vacuity list: required outcomes never observed
	var vacuous []string
	for _, req := range spec.MustSee {
		seen := false
		for _, u := range units {
			for k, n := range u.Outcomes {
				if n > 0 && strings.HasPrefix(k, req) {
					seen = true
				}
			}
		}
		if !seen {
			vacuous = append(vacuous, req)
		}
	}

	// report
	nviol, nknown, nharness := 0, 0, 0
	_ = os.MkdirAll(filepath.Join(verifDir, "replays"), 0o755)
	sort.SliceStable(all, func(i, j int) bool { return len(all[i].Trace) < len(all[j].Trace) })
	seenKeys := map[string]bool{}
	for _, f := range all {
		if f.Property != prop && f.Property != "HARNESS" {
			if os.Getenv("MC_DEBUG") != "" {
				fmt.Printf("INFO other-property finding %s key=%s trace=%v\n     %s\n", f.Property, f.Key, f.Trace, firstLines(f.Msg, 6))
			}
			continue // other properties' monitors are judged by their own checks
		}
		k := f.Property + "|" + f.Key
		if seenKeys[k] {
			continue
		}
		seenKeys[k] = true
		if f.Property == "HARNESS" && prop == "C18" && (f.Key == "replay-divergence" || f.Key == "nondeterministic-prefix") {
			f.Property = "C18" // for C18 a trace that does not replay identically is the finding itself
		}
		if f.Property == "HARNESS" {
			nharness++
			fmt.Printf("HARNESS-ERROR %s: %s trace=%v\n", f.Key, f.Msg, f.Trace)
			continue
		}
		if what, ok := known.match(f); ok {
			nknown++
			fmt.Printf("KNOWN-FINDING: property=%s %s [key=%s]\n", f.Property, what, f.Key)
			continue
		}
		nviol++
		path := writeReplay(f)
		fmt.Printf("VIOLATION property=%s replay=%s\n", f.Property, path)
		fmt.Printf("  key: %s\n  msg: %s\n  trace: %v\n", f.Key, firstLines(f.Msg, 12), f.Trace)
	}

	cov := map[string]any{
		"states":                        states,
		"transitions":                   trans,
		"traces_validated_against_impl": validated,
		"evaluations":                   evals,
		"distinct_nontrivial":           nontrivial,
		"rule":                          spec.Rule,
		"samples":                       samples,
		"exhaustive":                    exhaustive,
		"units":                         units,
		"vacuity_list":                  vacuous,
		"known_findings_reported":       nknown,
		"workers":                       *workers,
	}
	if len(samples) == 0 {
		cov["samples"] = []any{"(no sample collected)"}
	}
	if prop == "C18" {
		// per map-range site: how often some unit drove it with two or more keys (only then is there an
		// alternative order to try). A site listed under never_with_two_keys is not judged dynamically.
		per := map[string]int64{}
		for _, u := range units {
			for k, n := range u.Outcomes {
				if id, ok := strings.CutPrefix(k, "map-range-site-id:"); ok {
					if _, seen := per[id]; !seen {
						per[id] = 0
					}
				}
				if id, ok := strings.CutPrefix(k, "map-range-occurrence:"); ok {
					per[id] += n
				}
			}
		}
		var never []string
		for id, n := range per {
			if n == 0 {
				never = append(never, id)
			}
		}
		sort.Strings(never)
		cov["map_range_site_occurrences_with_two_or_more_keys"] = per
		cov["map_range_sites_never_with_two_keys"] = never
	}
	ev := map[string]any{
		"property_id": prop,
		"tier":        *tier,
		"seed":        seed,
		"level":       spec.Level,
		"coverage":    cov,
		"assumptions": spec.Assumptions,
		"wall_s":      time.Since(start).Seconds(),
		"violations":  nviol,
	}
	evDir := filepath.Join(verifDir, "evidence")
	if d := os.Getenv("VERIF_SCRATCH_EVIDENCE"); d != "" {
		evDir = d // mutant trials (tools/try_seed_ov.sh) must not overwrite the evidence of the real tree
	}
	_ = os.MkdirAll(evDir, 0o755)
	bz, _ := json.MarshalIndent(ev, "", " ")
	if err := os.WriteFile(filepath.Join(evDir, prop+".json"), bz, 0o644); err != nil {
		fmt.Println("cannot write evidence:", err)
		return 3
	}
	fmt.Printf("RESULT property=%s tier=%s states=%d transitions=%d evaluations=%d exhaustive=%v violations=%d known=%d vacuity=%v wall=%.1fs\n",
		prop, *tier, states, trans, evals, exhaustive, nviol, nknown, vacuous, time.Since(start).Seconds())
	if nharness > 0 {
		return 3
	}
	if nviol > 0 {
		return 1
	}
	return 0
}

// fanout runs every unit in its own single-worker child process (the seam controller is
// process-global), up to par at a time, each with the whole budget.
func fanout(prop, tier string, n int, budget time.Duration, par int, only string, spec scen.CheckSpec) map[int]scen.UnitResult {
	out := map[int]scen.UnitResult{}
	type res struct {
		i int
		r scen.UnitResult
	}
	ch := make(chan res, n)
	sem := make(chan struct{}, par)
	started := 0
	self, _ := os.Executable()
	dir, _ := os.MkdirTemp("", "mc-fan")
	defer os.RemoveAll(dir)
	for i := 0; i < n; i++ {
		label := spec.Units[i].Name()
		if l, ok := spec.Units[i].(interface{ Label() string }); ok {
			label = l.Label()
		}
		if only != "" && !strings.Contains(label, only) {
			continue
		}
		started++
		go func(i int) {
			sem <- struct{}{}
			defer func() { <-sem }()
			of := filepath.Join(dir, fmt.Sprintf("u%d.json", i))
			cmd := exec.Command(self, "check", prop, "--tier", tier, "--budget", budget.String(), "--child", fmt.Sprint(i), "--child-out", of)
			cmd.Env = os.Environ()
			outb, err := cmd.CombinedOutput()
			var r scen.UnitResult
			bz, rerr := os.ReadFile(of)
			if rerr != nil || json.Unmarshal(bz, &r) != nil {
				r = scen.UnitResult{Name: spec.Units[i].Name(), ErrStr: fmt.Sprintf("child failed: %v %s", err, firstLines(string(outb), 5))}
			}
			if r.ErrStr != "" {
				r.Err = fmt.Errorf("%s", r.ErrStr)
			}
			ch <- res{i, r}
		}(i)
	}
	for k := 0; k < started; k++ {
		x := <-ch
		out[x.i] = x.r
	}
	return out
}

func fmtParams(p map[string]any) string {
	ks := make([]string, 0, len(p))
	for k := range p {
		ks = append(ks, k)
	}
	sort.Strings(ks)
	var b strings.Builder
	for _, k := range ks {
		fmt.Fprintf(&b, "%s=%v ", k, p[k])
	}
	return strings.TrimSpace(b.String())
}

func firstLines(s string, n int) string {
	ls := strings.Split(s, "\n")
	if len(ls) > n {
		ls = append(ls[:n], "...")
	}
	return strings.Join(ls, "\n       ")
}

func writeReplay(f engine.Found) string {
	bz, _ := json.MarshalIndent(f, "", " ")
	sum := sha256.Sum256([]byte(f.Property + f.Key + f.Scenario + fmt.Sprint(f.Params)))
	path := filepath.Join(verifDir, "replays", fmt.Sprintf("%s-%x.json", f.Property, sum[:6]))
	_ = os.WriteFile(path, bz, 0o644)
	return path
}

func cmdReplay(args []string) int {
	if len(args) < 1 {
		fmt.Fprintln(os.Stderr, "usage: mc replay <file>")
		return 2
	}
	bz, err := os.ReadFile(args[0])
	if err != nil {
		fmt.Println(err)
		return 2
	}
	var f engine.Found
	if err := json.Unmarshal(bz, &f); err != nil {
		fmt.Println(err)
		return 2
	}
	vs, err := scen.ReplayFound(f)
	if err != nil {
		fmt.Println("replay error:", err)
		return 3
	}
	hit := false
	for _, v := range vs {
		fmt.Printf("violation property=%s key=%s\n  %s\n", v.Property, v.Key, firstLines(v.Msg, 20))
		if v.Property == f.Property && v.Key == f.Key {
			hit = true
		}
	}
	if hit {
		fmt.Printf("VIOLATION property=%s replay=%s\n", f.Property, args[0])
		return 1
	}
	fmt.Println("replay: recorded violation not reproduced")
	return 0
}

func envOr(k, d string) string {
	if v := os.Getenv(k); v != "" {
		return v
	}
	return d
}
