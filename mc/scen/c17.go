package scen

import (
	"encoding/json"
	"time"

	"verif/mc/engine"
)

func init() {
	registerScenario("handshake", func(bz json.RawMessage) (engine.Scenario, error) {
		var c Handshake
		if err := json.Unmarshal(bz, &c); err != nil {
			return nil, err
		}
		return c, nil
	})
	registerScenario("hsrace", func(bz json.RawMessage) (engine.Scenario, error) { return HandshakeRace{}, nil })
	register("C17", func(tier string) CheckSpec {
		depth, budget, hsDepth := 4, 280*time.Second, 8
		if tier == "thorough" {
			depth, budget, hsDepth = 5, 20*time.Minute, 10
		}
		return CheckSpec{Level: "model_checking", Rule: searchRule + "; the alphabet contains the full grid of handshake parameters (7 hop choices x ordering x port x counterparty port x version on the provider, 3 x 2 x 2 x 2 on the consumer), so every combination is attempted in every reached state", Assumptions: append([]string{
			"handshake unit (parameter grid): the application callbacks are called the way core calls them, with arbitrary parameter combinations core itself would partly refuse earlier, and the channel ends are written by the harness on acceptance",
			"hsrace unit: every handshake step is a real core message (MsgChannelOpenInit/Try/Ack/Confirm) handled by ibc-go's message server on both chains, racing relayers included; Merkle proofs are answered by the proof oracle (look-up in the counterparty's actual store)",
			"the late-open vscrelay unit additionally runs the well-formed connection and channel handshakes end to end on both chains through the same core messages",
		}, commonAssumptions...), Budget: budget,
			Units: []Unit{Search{Sc: Handshake{Variant: "base"}, Depth: depth}, Search{Sc: HandshakeRace{}, Depth: hsDepth}, Search{Sc: VSCRelay{Variant: "late", Epoch: 1, Delay: 1, Two: true}, Depth: 3}},
			MustSee: []string{"try:want=true,accepted=true", "try:want=false,accepted=false", "confirm:want=true,accepted=true", "confirm:want=false,accepted=false",
				"consumer-init:want=true,accepted=true", "consumer-init:want=false,accepted=false", "provider-init:accepted=false",
				"core-try:want=true,accepted=true", "core-try:want=false,accepted=false", "core-ack:want=true,accepted=true", "core-ack:want=false,accepted=false",
				"core-confirm:want=true,accepted=true", "core-confirm:want=false,accepted=false", "core-provider-init:accepted=false", "vsc-delivered-after-race"}}
	})
}
