package env

import (
	"bytes"
	"fmt"
	"reflect"
	"sync"
	"unsafe"

	sdk "github.com/cosmos/cosmos-sdk/types"
	clienttypes "github.com/cosmos/ibc-go/v10/modules/core/02-client/types"
	conntypes "github.com/cosmos/ibc-go/v10/modules/core/03-connection/types"
	channeltypes "github.com/cosmos/ibc-go/v10/modules/core/04-channel/types"
	commitmenttypes "github.com/cosmos/ibc-go/v10/modules/core/23-commitment/types"
	commitmenttypesv2 "github.com/cosmos/ibc-go/v10/modules/core/23-commitment/types/v2"
	ibcexported "github.com/cosmos/ibc-go/v10/modules/core/exported"
	ibckeeper "github.com/cosmos/ibc-go/v10/modules/core/keeper"
	ibctm "github.com/cosmos/ibc-go/v10/modules/light-clients/07-tendermint"
	ibctesting "github.com/cosmos/ibc-go/v10/testing"

	abci "github.com/cometbft/cometbft/abci/types"
)

// This file drives ibc-go's *real* core message server (ConnectionOpen*, ChannelOpen*, RecvPacket,
// Acknowledgement, Timeout) on the branching chain states. The only thing replaced is Merkle proof
// verification inside the 07-tendermint light-client module: the harness has no IAVL commits, so a
// "proof" is checked by looking the claimed key up in the counterparty chain's actual ibc store
// (membership: the stored value must equal the claimed value; non-membership: the key must be
// absent). Everything else — client status (an expired client verifies nothing), consensus state at
// the proof height, timeout arithmetic, ordered-channel sequence checks, commitment bookkeeping,
// acknowledgement writing, rollback of an unsuccessful receive callback, channel closing — is
// ibc-go's own code.

// ProofOracle wraps the 07-tendermint light-client module of one application object.
type ProofOracle struct {
	ibcexported.LightClientModule
	// Peer is the counterparty chain state claims are checked against; set by the harness around
	// every core call (every worker owns its application objects, so there is no sharing).
	Peer *State
	// Recorded, when non-nil, replaces the peer: the conformance replay has no counterparty chain, it
	// accepts exactly the claims that were verified against the real counterparty in the explored run.
	Recorded map[string]int
	// Log receives every verified claim (set while a recorded chain handles an IBC message)
	Log *[]Claim
	// Checked counts verified claims (evidence).
	Checked, Refused int
}

func claimKey(store string, key, value []byte) string {
	return fmt.Sprintf("%s|%x|%x|%v", store, key, value, value == nil)
}

var oracleMu sync.Mutex

var oracles = map[*ibckeeper.Keeper]*ProofOracle{}

// OracleFor installs (once) and returns the proof oracle of an IBC keeper.
func OracleFor(k *ibckeeper.Keeper) *ProofOracle {
	oracleMu.Lock()
	defer oracleMu.Unlock()
	if o, ok := oracles[k]; ok {
		return o
	}
	// clientKeeper.router.routes is unexported and AddRoute refuses to overwrite: reach the map directly
	ck := reflect.ValueOf(k.ClientKeeper).Elem()
	rf := ck.FieldByName("router")
	router := reflect.NewAt(rf.Type(), unsafe.Pointer(rf.UnsafeAddr())).Elem().Interface().(*clienttypes.Router)
	real, ok := router.GetRoute(ibcexported.Tendermint)
	if !ok {
		panic("no 07-tendermint light-client module registered")
	}
	o := &ProofOracle{LightClientModule: real}
	rv := reflect.ValueOf(router).Elem().FieldByName("routes")
	routes := reflect.NewAt(rv.Type(), unsafe.Pointer(rv.UnsafeAddr())).Elem().Interface().(map[string]ibcexported.LightClientModule)
	routes[ibcexported.Tendermint] = o
	oracles[k] = o
	return o
}

// errUseRecorded tells the verifier to consult the recorded claims.
var errUseRecorded = fmt.Errorf("use recorded claims")

func (o *ProofOracle) lookup(ctx sdk.Context, clientID string, height ibcexported.Height, path ibcexported.Path) ([]byte, error) {
	if o.Peer == nil && o.Recorded == nil {
		return nil, fmt.Errorf("verif proof oracle: no counterparty state attached")
	}
	// the real module needs a consensus state at the proof height and height <= latest height
	if _, err := o.LightClientModule.TimestampAtHeight(ctx, clientID, height); err != nil {
		return nil, fmt.Errorf("verif proof oracle: no consensus state at proof height %s: %w", height, err)
	}
	if lh := o.LightClientModule.LatestHeight(ctx, clientID); lh.LT(height) {
		return nil, fmt.Errorf("verif proof oracle: proof height %s above the client's latest height %s", height, lh)
	}
	mp, ok := path.(commitmenttypesv2.MerklePath)
	if !ok || len(mp.KeyPath) != 2 {
		return nil, fmt.Errorf("verif proof oracle: unexpected path %T %v", path, path)
	}
	if o.Recorded != nil {
		return nil, errUseRecorded
	}
	key := o.Peer.C.App.GetKey(string(mp.KeyPath[0]))
	if key == nil {
		return nil, fmt.Errorf("verif proof oracle: counterparty has no store %q", mp.KeyPath[0])
	}
	return o.Peer.Ctx.MultiStore().GetKVStore(key).Get(mp.KeyPath[1]), nil
}

func (o *ProofOracle) recorded(path ibcexported.Path, value []byte) error {
	mp := path.(commitmenttypesv2.MerklePath)
	k := claimKey(string(mp.KeyPath[0]), mp.KeyPath[1], value)
	if o.Recorded[k] > 0 {
		o.Checked++
		return nil
	}
	o.Refused++
	return fmt.Errorf("verif proof oracle: claim %s was never verified in the explored run", k)
}

func (o *ProofOracle) log(path ibcexported.Path, value []byte) {
	if o.Log != nil {
		mp := path.(commitmenttypesv2.MerklePath)
		*o.Log = append(*o.Log, Claim{Store: string(mp.KeyPath[0]), Key: append([]byte{}, mp.KeyPath[1]...), Value: value})
	}
}

func (o *ProofOracle) VerifyMembership(ctx sdk.Context, clientID string, height ibcexported.Height, delayTimePeriod, delayBlockPeriod uint64, proof []byte, path ibcexported.Path, value []byte) error {
	got, err := o.lookup(ctx, clientID, height, path)
	if err == errUseRecorded {
		return o.recorded(path, value)
	}
	if err != nil {
		o.Refused++
		return err
	}
	if got == nil || !bytes.Equal(got, value) {
		o.Refused++
		return fmt.Errorf("verif proof oracle: counterparty stores %x under %v, claimed %x", got, path, value)
	}
	o.Checked++
	o.log(path, append([]byte{}, value...))
	return nil
}

func (o *ProofOracle) VerifyNonMembership(ctx sdk.Context, clientID string, height ibcexported.Height, delayTimePeriod, delayBlockPeriod uint64, proof []byte, path ibcexported.Path) error {
	got, err := o.lookup(ctx, clientID, height, path)
	if err == errUseRecorded {
		return o.recorded(path, nil)
	}
	if err != nil {
		o.Refused++
		return err
	}
	if got != nil {
		o.Refused++
		return fmt.Errorf("verif proof oracle: counterparty stores %x under %v, claimed absent", got, path)
	}
	o.Checked++
	o.log(path, nil)
	return nil
}

var fakeProof = []byte("verif-proof")

func relayer() string { return relayerAddr.String() }

// proofHeight is the latest height of the light client behind a connection (what a relayer that has
// just updated the client proves against).
func proofHeight(ctx sdk.Context, k *ibckeeper.Keeper, clientID string) clienttypes.Height {
	cs, ok := k.ClientKeeper.GetClientState(ctx, clientID)
	if !ok {
		return clienttypes.Height{}
	}
	if tm, ok := cs.(*ibctm.ClientState); ok {
		return tm.LatestHeight
	}
	return clienttypes.Height{}
}

func clientOfChannel(ctx sdk.Context, k *ibckeeper.Keeper, port, ch string) string {
	c, ok := k.ChannelKeeper.GetChannel(ctx, port, ch)
	if !ok || len(c.ConnectionHops) == 0 {
		return ""
	}
	conn, ok := k.ConnectionKeeper.GetConnection(ctx, c.ConnectionHops[0])
	if !ok {
		return ""
	}
	return conn.ClientId
}

// coreTx sends one core message to chain s as a transaction of its current block, through the
// application's message router exactly like any other message (so it is also recorded for the
// conformance replay); proofs are answered against peer.
func coreTx(s *State, k *ibckeeper.Keeper, peer *State, msg sdk.Msg) (res TxResult) {
	o := OracleFor(k)
	o.Peer = peer
	if s.C.Rec != nil {
		o.Log = &s.C.Rec.Claims
	}
	defer func() { o.Peer, o.Log = nil, nil }()
	return s.Deliver(msg)
}

// response unpacks the typed response of a delivered message.
func response[T any](r TxResult) (out T, ok bool) {
	if r.Res == nil || len(r.Res.MsgResponses) == 0 {
		return out, false
	}
	out, ok = r.Res.MsgResponses[0].GetCachedValue().(T)
	return out, ok
}

func txErr(r TxResult) error {
	if r.Panic != "" {
		return fmt.Errorf("panic: %s", r.Panic)
	}
	return r.Err
}

// CoreOpenConnection runs the four connection-handshake messages through the core message servers
// of both chains (init on the consumer, as relayers do for ICS).
func CoreOpenConnection(p *State, pk *ibckeeper.Keeper, c *State, ck *ibckeeper.Keeper, l *Link) error {
	prefixC := commitmenttypes.NewMerklePrefix(ck.ConnectionKeeper.GetCommitmentPrefix().Bytes())
	prefixP := commitmenttypes.NewMerklePrefix(pk.ConnectionKeeper.GetCommitmentPrefix().Bytes())
	vers := conntypes.GetCompatibleVersions()
	// INIT on the consumer
	initMsg := conntypes.NewMsgConnectionOpenInit(l.CClient, l.PClient, prefixP, vers[0], 0, relayer())
	l.CConn = conntypes.FormatConnectionIdentifier(ck.ConnectionKeeper.GetNextConnectionSequence(c.Ctx))
	if err := txErr(coreTx(c, ck, p, initMsg)); err != nil {
		return fmt.Errorf("connection init: %w", err)
	}
	// TRY on the provider
	l.PConn = conntypes.FormatConnectionIdentifier(pk.ConnectionKeeper.GetNextConnectionSequence(p.Ctx))
	tryMsg := conntypes.NewMsgConnectionOpenTry(l.PClient, l.CConn, l.CClient, prefixC, vers, 0, fakeProof, proofHeight(p.Ctx, pk, l.PClient), relayer())
	if err := txErr(coreTx(p, pk, c, tryMsg)); err != nil {
		return fmt.Errorf("connection try: %w", err)
	}
	// ACK on the consumer
	ackMsg := conntypes.NewMsgConnectionOpenAck(l.CConn, l.PConn, fakeProof, proofHeight(c.Ctx, ck, l.CClient), vers[0], relayer())
	if err := txErr(coreTx(c, ck, p, ackMsg)); err != nil {
		return fmt.Errorf("connection ack: %w", err)
	}
	// CONFIRM on the provider
	confMsg := conntypes.NewMsgConnectionOpenConfirm(l.PConn, fakeProof, proofHeight(p.Ctx, pk, l.PClient), relayer())
	if err := txErr(coreTx(p, pk, c, confMsg)); err != nil {
		return fmt.Errorf("connection confirm: %w", err)
	}
	return nil
}

// CoreChanOpenInit sends MsgChannelOpenInit to chain s; returns the new channel id.
func CoreChanOpenInit(s *State, k *ibckeeper.Keeper, peer *State, port, cpPort string, order channeltypes.Order, hops []string, version string) (string, error) {
	msg := channeltypes.NewMsgChannelOpenInit(port, version, order, hops, cpPort, relayer())
	r := coreTx(s, k, peer, msg)
	if err := txErr(r); err != nil {
		return "", err
	}
	resp, ok := response[*channeltypes.MsgChannelOpenInitResponse](r)
	if !ok {
		return "", fmt.Errorf("no MsgChannelOpenInitResponse")
	}
	return resp.ChannelId, nil
}

// CoreChanOpenTry sends MsgChannelOpenTry to chain s.
func CoreChanOpenTry(s *State, k *ibckeeper.Keeper, peer *State, port, cpPort, cpChan string, order channeltypes.Order, hops []string, cpVersion string) (string, error) {
	if len(hops) == 0 {
		return "", fmt.Errorf("no connection hops")
	}
	client := ""
	if conn, ok := k.ConnectionKeeper.GetConnection(s.Ctx, hops[0]); ok {
		client = conn.ClientId
	}
	msg := channeltypes.NewMsgChannelOpenTry(port, "", order, hops, cpPort, cpChan, cpVersion, fakeProof, proofHeight(s.Ctx, k, client), relayer())
	r := coreTx(s, k, peer, msg)
	if err := txErr(r); err != nil {
		return "", err
	}
	resp, ok := response[*channeltypes.MsgChannelOpenTryResponse](r)
	if !ok {
		return "", fmt.Errorf("no MsgChannelOpenTryResponse")
	}
	return resp.ChannelId, nil
}

// CoreChanOpenAck sends MsgChannelOpenAck to chain s.
func CoreChanOpenAck(s *State, k *ibckeeper.Keeper, peer *State, port, chID, cpChan, cpVersion string) error {
	msg := channeltypes.NewMsgChannelOpenAck(port, chID, cpChan, cpVersion, fakeProof, proofHeight(s.Ctx, k, clientOfChannel(s.Ctx, k, port, chID)), relayer())
	return txErr(coreTx(s, k, peer, msg))
}

// CoreChanOpenConfirm sends MsgChannelOpenConfirm to chain s.
func CoreChanOpenConfirm(s *State, k *ibckeeper.Keeper, peer *State, port, chID string) error {
	msg := channeltypes.NewMsgChannelOpenConfirm(port, chID, fakeProof, proofHeight(s.Ctx, k, clientOfChannel(s.Ctx, k, port, chID)), relayer())
	return txErr(coreTx(s, k, peer, msg))
}

// CoreRecv sends MsgRecvPacket to the receiving chain s (peer = the sender).
func CoreRecv(s *State, k *ibckeeper.Keeper, peer *State, pkt channeltypes.Packet) RecvResult {
	client := clientOfChannel(s.Ctx, k, pkt.DestinationPort, pkt.DestinationChannel)
	if client == "" {
		return RecvResult{Err: fmt.Errorf("destination channel not found")}
	}
	msg := channeltypes.NewMsgRecvPacket(pkt, fakeProof, proofHeight(s.Ctx, k, client), relayer())
	var res RecvResult
	r := coreTx(s, k, peer, msg)
	evs := r.Events
	res.Events, res.Panic = evs, r.Panic
	if r.Panic != "" {
		return res
	}
	if r.Err != nil {
		res.Err = r.Err
		return res
	}
	if resp, ok := response[*channeltypes.MsgRecvPacketResponse](r); ok && resp.Result == channeltypes.NOOP {
		res.Err = fmt.Errorf("no-op: packet already received")
		return res
	}
	ack, e := ibctesting.ParseAckFromEvents(evs)
	if e != nil {
		res.Err = fmt.Errorf("async acknowledgement not modelled: %w", e)
		return res
	}
	res.Ack = ack
	var a channeltypes.Acknowledgement
	if e := channeltypes.SubModuleCdc.UnmarshalJSON(ack, &a); e == nil {
		res.Success = a.Success()
	}
	return res
}

// CoreAck sends MsgAcknowledgement to the chain s that sent pkt (peer = the receiver).
func CoreAck(s *State, k *ibckeeper.Keeper, peer *State, pkt channeltypes.Packet, ack []byte) (evs []abci.Event, err error, pan string) {
	client := clientOfChannel(s.Ctx, k, pkt.SourcePort, pkt.SourceChannel)
	if client == "" {
		return nil, fmt.Errorf("source channel not found"), ""
	}
	msg := channeltypes.NewMsgAcknowledgement(pkt, ack, fakeProof, proofHeight(s.Ctx, k, client), relayer())
	r := coreTx(s, k, peer, msg)
	if resp, ok := response[*channeltypes.MsgAcknowledgementResponse](r); ok && r.Err == nil && resp.Result == channeltypes.NOOP {
		return r.Events, fmt.Errorf("no commitment: packet already acknowledged or timed out"), r.Panic
	}
	return r.Events, r.Err, r.Panic
}

// CoreTimeout sends MsgTimeout to the chain s that sent pkt (peer = the chain that never received it).
func CoreTimeout(s *State, k *ibckeeper.Keeper, peer *State, peerK *ibckeeper.Keeper, pkt channeltypes.Packet) (evs []abci.Event, err error, pan string) {
	client := clientOfChannel(s.Ctx, k, pkt.SourcePort, pkt.SourceChannel)
	if client == "" {
		return nil, fmt.Errorf("source channel not found"), ""
	}
	next, _ := peerK.ChannelKeeper.GetNextSequenceRecv(peer.Ctx, pkt.DestinationPort, pkt.DestinationChannel)
	if next == 0 {
		next = 1
	}
	msg := channeltypes.NewMsgTimeout(pkt, next, fakeProof, proofHeight(s.Ctx, k, client), relayer())
	r := coreTx(s, k, peer, msg)
	if resp, ok := response[*channeltypes.MsgTimeoutResponse](r); ok && r.Err == nil && resp.Result == channeltypes.NOOP {
		return r.Events, fmt.Errorf("no commitment"), r.Panic
	}
	return r.Events, r.Err, r.Panic
}
