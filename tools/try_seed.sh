#!/bin/bash
# try_seed.sh <patch.diff> <PROP> [more check args] : applies a seeded change to /repo, runs the check, reverts.
P=$1; shift
cd /repo && { [ -z "$(git status --porcelain --untracked-files=no)" ] || { echo "REFUSING: /repo has uncommitted tracked changes"; exit 3; }; } && git apply "$P" || { echo "patch does not apply"; exit 2; }
cd /verif && ./check "$@" 2>&1 | grep -E "^(VIOLATION|KNOWN|RESULT|BUILD|HARNESS|  key|  msg|  trace)" | cut -c1-400
cd /repo && git checkout -- . 
