#!/usr/bin/env python3
"""Round 3: copies the confirmed seeded changes from /tmp/seeded3/<P>/e into /verif/seeded/<P>e/ with a
meta.json recording the property, what the change needs in order to manifest, what was run to confirm it
(tools/confirm_seed.sh in a scratch worktree of /repo's HEAD) and which check catches it."""
import json, os, shutil
caught = {
 "C01": "C01 consumer-stored-set, consumer-engine-set (vscrelay batch / latebatch units)",
 "C02": "C02 eligible-missing, ineligible-member:...active=false",
 "C03": "C03 threshold-after-topn-change",
 "C04": "C04 setcap-outranked - first missed; caught after adding priority-list updates with duplicate entries ([v3,v1] -> [v1,v1])",
 "C05": "C05 forbidden-assignment-accepted:current-or-recently-replaced-key, validator-created-with-known-key, key-with-two-owners - first missed (the model dropped ALL keys of a removed validator as don't-care); caught after keeping replaced keys reserved and adding the removal unit",
 "C06": "C06 key-not-attributed:replaced",
 "C07": "C07 valid-evidence-rejected, misbehaving-signer-not-punished, valid-misbehaviour-rejected - first missed by C07 (no stop event); caught after adding stop(c0); C11 catches it independently as key-assignment-lost-before-removal",
 "C08": "C08 slash-acks-lost",
 "C09": "C09 foreign-ack-releases-slash-packet",
 "C10": "C10 not-scheduled-exactly-once, registered-but-scheduled, launch-should-succeed, launched-before-spawn-time",
 "C11": "C11 packet-sent-after-stop, stopped-consumer-still-updated (latechan unit)",
 "C12": "C12 unissued-id-not-error-acked",
 "C13": "C13 time-queue-differs:59, foreign-state-changed:prefix=57/58",
 "C14": "C14 topn-without-gov-owner",
 "C15": "C15 engine!=recorded",
 "C16": "C16 ineligible-validator-paid, validator-share, commission - first missed (the oracle read eligibility from the stored join height the change corrupts, and no unit had a power cap); caught after the harness kept its own join-height ledger and a power-capped unit was added",
 "C17": "C17 two-consumers-one-client, client-index-not-inverse",
 "C18": "C18 map-order-dependence:x/ccv/consumer/keeper/distribution.go:212 - first missed (no unit had two provider reward denoms, so the new map never held two keys); caught after adding the provider-denoms rewards unit",
 "C19": "C19 halt:provider:BeginBlock error: failed to retrieve queued infraction parameters - first missed by C19 at its depth (C20 caught it as schedule-vs-pending / wrong-due-time); caught after adding the staggered infraction unit",
 "C20": "C20 schedule-vs-pending, due-change-not-applied",
}
for p, how in sorted(caught.items()):
    src = f"/tmp/seeded3/{p}/e"
    if not os.path.exists(src + "/patch.diff"):
        continue
    dst = f"/verif/seeded/{p}e"
    os.makedirs(dst, exist_ok=True)
    shutil.copy(src + "/patch.diff", dst + "/patch.diff")
    shutil.copy(src + "/demo_test.go", dst + "/demo_test.go.txt")  # .txt: not part of any Go package under /verif
    m = json.load(open(src + "/meta.json"))
    log = open(src + "/confirm.log").read().strip().splitlines() if os.path.exists(src + "/confirm.log") else []
    out = {
        "property": p, "round": 3, "written_by": "independent sub-agent that saw only the property text and its own scratch worktree",
        "summary": m.get("summary"), "needs_to_manifest": m.get("needs"), "clause": m.get("clause"),
        "demo_pkg_dir": m.get("demo_pkg_dir"), "demo_file": "demo_test.go.txt (copy into demo_pkg_dir as zz_verif_demo_test.go)",
        "confirmed_by": "tools/confirm_seed.sh in a scratch worktree of /repo HEAD: demo passes without the change, patch applies and builds, demo fails with it, go test ./x/... ./app/... and ./tests/integration/... pass with it",
        "confirm_log": log, "caught_by": how,
        "how_checked": "tools/try_seed_ov.sh <patch> <PROP> quick (go build -overlay, /repo untouched); C18 with tools/try_seed.sh (applied to /repo, reverted)",
    }
    json.dump(out, open(dst + "/meta.json", "w"), indent=1)
    print(p, "->", dst, log[-1] if log else "?")
