#!/bin/bash
# confirm_seed.sh <PROP> <variant> [full]
# Confirms a seeded change in the scratch worktree /tmp/wt-<PROP> (a checkout of /repo's HEAD):
#  1. the demonstration passes WITHOUT the change, 2. the patch applies and the tree builds,
#  3. the demonstration FAILS with the change, 4. the repository's own tests of ./x/... ./app/... pass
#  with it and, with "full", the integration suite too.
# Env: WTPREFIX (default /tmp/wt-), SEEDROOT (default /tmp/seeded), INTEG_TIMEOUT (default 70m).
# Writes /tmp/seeded/<PROP>/<variant>/confirm.log (last line: CONFIRMED or NOT-CONFIRMED <why>).
set -u
P=$1; V=$2; FULL=${3:-}
WT=${WTPREFIX:-/tmp/wt-}$P; D=${SEEDROOT:-/tmp/seeded}/$P/$V; TMO=${INTEG_TIMEOUT:-70m}
export GOFLAGS=-mod=mod GOPROXY=off
LOG=$D/confirm.log; : > $LOG
cd $WT || exit 2
git checkout -q -- . ; git clean -fdq -e tests/e2e/testdata
pkg=$(jq -r .demo_pkg_dir $D/meta.json); pkg=${pkg#$WT/}; pkg=${pkg#./}; pkg=${pkg%/}
plain=$(grep -oE '^func Test[A-Za-z0-9_]+\(' $D/demo_test.go | sed -E 's/^func (Test[A-Za-z0-9_]+)\(/\1/' | paste -sd'|')
suite=$(grep -oE '^func \([a-zA-Z_]+ \*?[A-Za-z]+\) Test[A-Za-z0-9_]+\(' $D/demo_test.go | sed -E 's/.*\) (Test[A-Za-z0-9_]+)\(/\1/' | paste -sd'|')
if [ -n "$plain" ]; then cmd="go test -vet=off -count=1 -run '^($plain)\$' ./$pkg/"; else cmd="go test -vet=off -count=1 ./$pkg/ -run 'TestCCVTestSuite' -testify.m '^($suite)\$'"; fi
cp $D/demo_test.go $WT/$pkg/zz_verif_demo_test.go
echo "demo pkg=$pkg" >> $LOG; echo "demo cmd=$cmd" >> $LOG
( eval "$cmd" ) > $D/demo_without.log 2>&1; r0=$?; echo "demo WITHOUT patch: exit $r0" >> $LOG
git apply $D/patch.diff || { echo "NOT-CONFIRMED patch does not apply" >> $LOG; rm -f $WT/$pkg/zz_verif_demo_test.go; exit 1; }
go build ./... >> $LOG 2>&1; rb=$?; echo "build with patch: exit $rb" >> $LOG
( eval "$cmd" ) > $D/demo_with.log 2>&1; r1=$?; echo "demo WITH patch: exit $r1" >> $LOG
rm -f $WT/$pkg/zz_verif_demo_test.go
go test -vet=off -count=1 ./x/... ./app/... 2>&1 | grep -E "^(FAIL|ok|--- FAIL|panic:)" > $D/unit_with.log; ru=$(grep -c -E "^(FAIL|--- FAIL|panic:)" $D/unit_with.log)
echo "unit tests with patch: $(grep -c '^ok' $D/unit_with.log) packages ok, $ru failures" >> $LOG
ri=0
if [ "$FULL" = full ]; then
  go test -vet=off -count=1 -timeout $TMO ./tests/integration/... 2>&1 | grep -E "^(FAIL|ok|--- FAIL|panic:)" > $D/integration_with.log
  ri=$(grep -c -E "^(FAIL|--- FAIL|panic:)" $D/integration_with.log); echo "integration suite with patch: $(cat $D/integration_with.log | tr '\n' ' ')" >> $LOG
fi
git checkout -q -- . ; git clean -fdq -e tests/e2e/testdata
if [ $r0 -eq 0 ] && [ $rb -eq 0 ] && [ $r1 -ne 0 ] && [ $ru -eq 0 ] && [ $ri -eq 0 ]; then echo CONFIRMED >> $LOG; else echo "NOT-CONFIRMED without=$r0 build=$rb with=$r1 unitfail=$ru integfail=$ri" >> $LOG; fi
tail -1 $LOG
