package scen

import (
	"bytes"
	"fmt"
	"strings"
	"time"

	sdk "github.com/cosmos/cosmos-sdk/types"
	channeltypes "github.com/cosmos/ibc-go/v10/modules/core/04-channel/types"

	"verif/mc/engine"
	"verif/mc/env"

	providertypes "github.com/cosmos/interchain-security/v7/x/ccv/provider/types"
	ccv "github.com/cosmos/interchain-security/v7/x/ccv/types"
)

// Stop is the C11 scenario: every way of stopping a consumer, repeated and for two consumers at
// once, with block-time steps around the removal time.
type Stop struct{ Variant string }

func (c Stop) Name() string           { return "stop" }
func (c Stop) Params() map[string]any { return map[string]any{"Variant": c.Variant} }

type stopInfo struct {
	At      int64  // unix nanos of the first stop
	SetHash string // digest of the stored validator set and pending queue at the stop
	NSent   int    // packets that had left on the channel at the stop
	Deleted bool
}

type stNode struct {
	*XNode
	Stops map[string]stopInfo
}

func (n *stNode) clone() *stNode {
	o := &stNode{XNode: n.XNode.Clone(), Stops: map[string]stopInfo{}}
	for k, v := range n.Stops {
		o.Stops[k] = v
	}
	return o
}

func (n *stNode) digest() string {
	var b strings.Builder
	for _, k := range sortedKeys(n.Stops) {
		s := n.Stops[k]
		fmt.Fprintf(&b, "%s:%d/%s/%d/%v;", k, s.At, s.SetHash, s.NSent, s.Deleted)
	}
	return b.String()
}

type stWorker struct {
	w       *XWorld
	p       *env.Provider
	tab     Table
	root    *stNode
	stats   *engine.Stats
	rootVs  []V
	cons    []string
	kA, kB  env.ConsKey
	sent    map[string]int
	variant string
}

func (c Stop) NewWorker(stats *engine.Stats) (engine.Worker, error) {
	p, err := env.NewProvider(env.ProviderCfg{SelfTokens: []int64{5 * unit, 3 * unit, 2 * unit}, Users: 1, CcvTimeout: 100 * time.Second})
	if err != nil {
		return nil, err
	}
	xw := &XWorld{P: p, CA: env.NewConsumerApp(), Stats: stats, Delay: 1}
	w := &stWorker{variant: c.Variant, w: xw, p: p, stats: stats, cons: []string{"0", "1"}, kA: env.NewConsKey("st-a"), kB: env.NewConsKey("st-b")}
	st := p.Root.Branch()
	A := p.Users[0].Addr.String()
	must := func(s *env.State, m sdk.Msg) error {
		if r := s.Deliver(m); r.Err != nil {
			return fmt.Errorf("%T: %w", m, r.Err)
		}
		return nil
	}
	for i, chain := range []string{"cons-x", "cons-y"} {
		id := fmt.Sprint(i)
		ps := &providertypes.PowerShapingParameters{Allowlist: consAddrs(p, 0, 1, 2), Denylist: []string{env.NewConsKey("nobody").ConsAddr().String()}, Prioritylist: consAddrs(p, 1)}
		m := env.MsgCreateConsumer(A, chain, env.ConsumerInit{Spawn: st.Time()}.Params(chain), ps)
		m.AllowlistedRewardDenoms = &providertypes.AllowlistedRewardDenoms{Denoms: []string{ibcDenom("st" + id)}}
		if err := must(&st, m); err != nil {
			return nil, err
		}
		for vi := range p.Vals {
			if err := must(&st, env.MsgOptIn(p.Vals[vi], id, nil)); err != nil {
				return nil, err
			}
		}
		if err := must(&st, env.MsgAssignKey(p.Vals[1], id, w.kA)); err != nil {
			return nil, err
		}
		if err := must(&st, env.MsgSetCommission(p.Vals[0], id, "0.4")); err != nil {
			return nil, err
		}
	}
	n := &stNode{XNode: &XNode{P: st, C: map[string]env.State{}, L: map[string]env.Link{}}, Stops: map[string]stopInfo{}}
	if r := xw.PBlock(n.XNode, 0, nil); r.Halt() != "" {
		return nil, fmt.Errorf("prefix block: %s", r.Halt())
	}
	for _, cid := range w.cons {
		if _, err := xw.Boot(n.XNode, cid); err != nil {
			return nil, fmt.Errorf("boot %s: %w", cid, err)
		}
		if c.Variant == "latechan" && cid == "0" {
			continue // consumer 0's CCV channel is only opened by the open(c0) event: its updates queue up
		}
		if err := xw.Open(n.XNode, cid); err != nil {
			return nil, fmt.Errorf("open %s: %w", cid, err)
		}
	}
	n.touchP()
	for _, cid := range w.cons {
		// replaced key (prune entry), pending infraction change, a slash ack
		if err := must(&n.P, env.MsgAssignKey(p.Vals[1], cid, w.kB)); err != nil {
			return nil, err
		}
		x := ipP1
		if err := must(&n.P, &providertypes.MsgUpdateConsumer{Owner: A, ConsumerId: cid, InfractionParameters: &x}); err != nil {
			return nil, err
		}
		cidRaw := cid
		if err, pan := n.P.Raw("fixture-slash-ack", func(app env.ABCIApp, ctx sdk.Context) error {
			env.PA(app).ProviderKeeper.AppendSlashAck(ctx, cidRaw, "slashack-"+cidRaw)
			return nil
		}); err != nil || pan != "" {
			return nil, fmt.Errorf("fixture slash ack: %v %s", err, pan)
		}
	}
	// two epochs with changes: two VSC packets in flight per consumer (never delivered here)
	for i := 0; i < 2; i++ {
		if err := must(&n.P, env.MsgDelegate(p.Delegator, p.Vals[2], unit)); err != nil {
			return nil, err
		}
		if r := xw.PBlock(n.XNode, 0, nil); r.Halt() != "" {
			return nil, fmt.Errorf("prefix block: %s", r.Halt())
		}
		n.touchP()
	}
	for _, cid := range w.cons {
		if c.Variant == "latechan" && cid == "0" {
			if q := p.K.GetPendingVSCPackets(n.P.Ctx, cid); len(q) < 2 {
				return nil, fmt.Errorf("fixture: consumer 0 has %d queued packets", len(q))
			}
			continue
		}
		if len(n.L[cid].P2C.Packets) < 2 {
			return nil, fmt.Errorf("fixture: consumer %s has %d packets in flight", cid, len(n.L[cid].P2C.Packets))
		}
	}
	w.root = n
	w.build()
	return w, nil
}

func (w *stWorker) RootViolations() []V            { return w.rootVs }
func (w *stWorker) Root() engine.Node              { return w.root }
func (w *stWorker) Enabled(n engine.Node) []string { return w.tab.Names() }
func (w *stWorker) Apply(n engine.Node, ev string) (engine.Node, []V) {
	return w.tab.Apply(n, ev)
}
func (w *stWorker) Hash(n engine.Node) [32]byte {
	x := n.(*stNode)
	return w.w.hashNode(x.XNode, x.digest())
}

// frozen is what must not move once a consumer is stopped: its stored set and its pending queue.
func (w *stWorker) frozen(ctx sdk.Context, cid string) string {
	p := w.p
	var b strings.Builder
	for _, kv := range env.DumpPrefix(ctx, p.PApp, "provider", p.K.GetConsumerChainConsensusValidatorsKey(ctx, cid)) {
		fmt.Fprintf(&b, "%x=%x;", kv.K, kv.V)
	}
	for _, d := range p.K.GetPendingVSCPackets(ctx, cid) {
		fmt.Fprintf(&b, "pend%d;", d.ValsetUpdateId)
	}
	return b.String()
}

// after every event: monitor bookkeeping + C11 oracles.
// phaseRank orders the phases the way the lifecycle may move: pre-launch < launched < stopped < deleted.
func phaseRank(ph providertypes.ConsumerPhase) int {
	switch ph {
	case providertypes.CONSUMER_PHASE_LAUNCHED:
		return 2
	case providertypes.CONSUMER_PHASE_STOPPED:
		return 3
	case providertypes.CONSUMER_PHASE_DELETED:
		return 4
	}
	return 1
}

func (w *stWorker) after(pre *stNode, c *stNode, ev string) []V {
	p := w.p
	var vs []V
	ctx := c.P.Ctx
	U := p.Cfg.Unbonding
	// C10 on the cross-chain histories: no event (late timeouts and acknowledgements on closed channels
	// included) ever moves a consumer backwards in its lifecycle
	for _, cid := range w.cons {
		a, b := p.K.GetConsumerPhase(pre.P.Ctx, cid), p.K.GetConsumerPhase(ctx, cid)
		if a != b {
			w.stats.Count("edge:" + a.String() + "->" + b.String())
		}
		if phaseRank(b) < phaseRank(a) {
			vs = append(vs, vf("C10", "phase-moved-backwards:"+a.String()+"->"+b.String(), "%s: consumer %s went from %s back to %s", ev, cid, a, b))
		}
	}
	for _, cid := range w.cons {
		ph := p.K.GetConsumerPhase(ctx, cid)
		si, stopped := c.Stops[cid]
		if !stopped {
			if ph == providertypes.CONSUMER_PHASE_STOPPED || ph == providertypes.CONSUMER_PHASE_DELETED {
				// just stopped by this event: the stop instant is the block time of the provider block it ran in
				c.Stops[cid] = stopInfo{At: pre.P.Time().UnixNano(), SetHash: w.frozen(ctx, cid), NSent: w.nSent(c, cid)}
				if strings.HasPrefix(ev, "P.block") || strings.HasPrefix(ev, "wait") {
					// stopped inside EndBlock (send failure): the block that ended
					c.Stops[cid] = stopInfo{At: pre.P.Time().UnixNano(), SetHash: w.frozen(ctx, cid), NSent: w.nSent(c, cid)}
				}
				w.stats.Count("stopped-by:" + strings.SplitN(ev, "(", 2)[0])
			}
			continue
		}
		due := !time.Unix(0, si.At).Add(U).After(c.P.Time())
		switch {
		case ph == providertypes.CONSUMER_PHASE_STOPPED:
			if due && !strings.HasPrefix(ev, "P.block") && !strings.HasPrefix(ev, "wait") {
				break // removal happens in BeginBlock: only block events can perform it
			}
			if due {
				vs = append(vs, vf("C11", "not-deleted-when-due", "consumer %s was stopped at %s; block time %s is past stop + unbonding period but it is still stopped (%s)", cid, time.Unix(0, si.At).UTC().Format("15:04:05"), c.P.Time().Format("15:04:05"), ev))
			}
			// frozen: no new packets, same set, same queue; state needed for slashing / evidence still there
			if got := w.frozen(ctx, cid); got != si.SetHash {
				vs = append(vs, vf("C11", "stopped-consumer-still-updated", "consumer %s is stopped but its stored validator set / pending queue changed (%s)", cid, ev))
			}
			if n := w.nSent(c, cid); n != si.NSent {
				vs = append(vs, vf("C11", "packet-sent-after-stop", "consumer %s is stopped but %d more packet(s) left on its channel (%s)", cid, n-si.NSent, ev))
			}
			if got := p.K.GetProviderAddrFromConsumerAddr(ctx, cid, providertypes.NewConsumerConsAddress(w.kB.ConsAddr())); !got.ToSdkConsAddr().Equals(p.Vals[1].ConsAddr()) {
				vs = append(vs, vf("C11", "key-assignment-lost-before-removal", "consumer %s is stopped (not yet removed) but v1's assigned key no longer resolves to v1", cid))
			}
			if _, ok := p.K.GetConsumerClientId(ctx, cid); !ok {
				vs = append(vs, vf("C11", "client-binding-lost-before-removal", "consumer %s is stopped (not yet removed) but its client binding is gone", cid))
			}
			w.stats.Count("checked-while-stopped")
		case ph == providertypes.CONSUMER_PHASE_DELETED:
			if !si.Deleted {
				if !due {
					vs = append(vs, vf("C11", "deleted-too-early", "consumer %s was stopped at %s and deleted at block time %s, before one unbonding period (%s) had passed", cid, time.Unix(0, si.At).UTC().Format("15:04:05"), c.P.Time().Format("15:04:05"), U))
				}
				si.Deleted = true
				c.Stops[cid] = si
				w.stats.Count("deleted")
			}
			vs = append(vs, w.leftovers(c, cid)...)
		default:
			vs = append(vs, vf("C11", "stopped-consumer-revived", "consumer %s was stopped but is now in phase %s", cid, ph))
		}
	}
	return vs
}

func (w *stWorker) nSent(c *stNode, cid string) int {
	// packets captured on the channel so far = still queued + already timed-out/acked; use the
	// provider's own next send sequence
	l := c.L[cid]
	seq, ok := w.p.PApp.IBCKeeper.ChannelKeeper.GetNextSequenceSend(c.P.Ctx, ccv.ProviderPortID, l.PChan)
	if !ok {
		return 0 // no channel yet
	}
	return int(seq) - 1
}

// leftovers: after deletion only descriptive records may remain.
func (w *stWorker) leftovers(c *stNode, cid string) []V {
	p := w.p
	var vs []V
	allowed := map[byte]bool{
		providertypes.ConsumerIdToChainIdKey(cid)[0]:                  true,
		providertypes.ConsumerIdToOwnerAddressKey(cid)[0]:             true,
		providertypes.ConsumerIdToMetadataKey(cid)[0]:                 true,
		providertypes.ConsumerIdToInitializationParametersKey(cid)[0]: true,
		providertypes.ConsumerIdToPowerShapingParametersKey(cid)[0]:   true,
		providertypes.ConsumerIdToPhaseKey(cid)[0]:                    true,
		providertypes.ConsumerIdToInfractionParametersKey(cid)[0]:     true,
		providertypes.ConsumerIdToAllowlistedRewardDenomKey(cid)[0]:   true,
		providertypes.ConsumerRewardsAllocationByDenomKeyPrefix():     true,
	}
	for _, kv := range env.Dump(c.P.Ctx, p.PApp, "provider") {
		if len(kv.K) < 2 || allowed[kv.K[0]] {
			continue
		}
		rest := kv.K[1:]
		own := string(rest) == cid || bytes.HasPrefix(rest, lenPrefixed(cid)) || string(kv.V) == cid
		pf := kv.K[0]
		if pf == providertypes.SpawnTimeToConsumerIdsKeyPrefix() || pf == providertypes.RemovalTimeToConsumerIdsKeyPrefix() || pf == providertypes.InfractionScheduledTimeToConsumerIdsKeyPrefix() {
			own = false
			if pf == providertypes.InfractionScheduledTimeToConsumerIdsKeyPrefix() {
				for _, id := range idList(kv.V) {
					if id == cid {
						own = true
					}
				}
			}
		}
		if own {
			vs = append(vs, vf("C11", fmt.Sprintf("state-survives-deletion:prefix=%d", pf), "consumer %s is deleted but provider store entry %x (prefix %d) still belongs to it", cid, kv.K, pf))
		}
	}
	if l := c.L[cid]; l.PChan != "" {
		if ch, ok := p.PApp.IBCKeeper.ChannelKeeper.GetChannel(c.P.Ctx, ccv.ProviderPortID, l.PChan); ok && ch.State != channeltypes.CLOSED {
			vs = append(vs, vf("C11", "channel-not-closed", "consumer %s is deleted but its channel %s is %s", cid, l.PChan, ch.State))
		}
	}
	return vs
}

func (w *stWorker) ev(name string, f func(c *stNode) (bool, []V)) {
	w.tab.Add(name, func(n engine.Node) (engine.Node, []V) {
		x := n.(*stNode)
		c := x.clone()
		ok, vs := f(c)
		if !ok {
			return nil, vs
		}
		return c, append(vs, w.after(x, c, name)...)
	})
}

func (w *stWorker) build() {
	p := w.p
	U := p.Cfg.Unbonding
	A := p.Users[0].Addr.String()
	w.ev("P.block", func(c *stNode) (bool, []V) {
		r := w.w.PBlock(c.XNode, 0, nil)
		return r.Halt() == "", haltViolation("provider", r)
	})
	for _, d := range []struct {
		n  string
		dt time.Duration
	}{{"wait(2m)", 2 * time.Minute}, {"wait(U-5s)", U - 5*time.Second}, {"wait(U)", U}} {
		d := d
		w.ev(d.n, func(c *stNode) (bool, []V) {
			pr, crs := w.w.Wait(c.XNode, d.dt, true)
			vs := haltViolation("provider", pr)
			for _, r := range crs {
				vs = append(vs, haltViolation("consumer", r)...)
			}
			return pr.Halt() == "", vs
		})
	}
	w.ev("delegate(v0,+1)", func(c *stNode) (bool, []V) {
		c.touchP()
		return c.P.Deliver(env.MsgDelegate(p.Delegator, p.Vals[0], unit)).Err == nil, nil
	})
	for _, cid := range w.cons {
		cid := cid
		w.ev("remove(c"+cid+")", func(c *stNode) (bool, []V) {
			c.touchP()
			return c.P.Deliver(env.MsgRemoveConsumer(A, cid)).Err == nil, nil
		})
		w.ev("timeout(P->C"+cid+")", func(c *stNode) (bool, []V) {
			pk, err, pan := w.w.TimeoutP2C(c.XNode, cid)
			if pan != "" {
				return false, []V{vf("C19", "panic:timeout", "%s", pan)}
			}
			return pk != nil && err == nil, nil
		})
		w.ev("errorack(P<-C"+cid+")", func(c *stNode) (bool, []V) {
			l := c.L[cid]
			if len(l.P2C.Packets) == 0 {
				return false, nil
			}
			pk := l.P2C.Packets[0]
			c.touchP()
			pp := c.P
			_, err, pan := env.AckPacket(&pp, p.PApp.IBCKeeper, pk.P, channeltypes.NewErrorAcknowledgement(fmt.Errorf("consumer could not handle the packet")).Acknowledgement())
			if pan != "" {
				return false, []V{vf("C19", "panic:errorack", "%s", pan)}
			}
			if err != nil {
				return false, nil
			}
			l.P2C.Packets = l.P2C.Packets[1:]
			c.P, c.L[cid] = pp, l
			return true, nil
		})
	}
	if w.variant == "latechan" {
		w.ev("open(c0)", func(c *stNode) (bool, []V) {
			// a relayer completes the CCV handshake for consumer 0 (possibly after it was stopped)
			if c.L["0"].PChan != "" {
				return false, nil
			}
			if err := w.w.Open(c.XNode, "0"); err != nil {
				return false, nil
			}
			w.stats.Count("channel-opened-late")
			if _, stopped := c.Stops["0"]; stopped {
				w.stats.Count("channel-opened-after-stop")
			}
			return true, nil
		})
	}
	w.ev("closechan(c0)", func(c *stNode) (bool, []V) {
		// the counterparty closed the channel (what ChanCloseConfirm leaves on the provider side)
		l := c.L["0"]
		c.touchP()
		ch, ok := p.PApp.IBCKeeper.ChannelKeeper.GetChannel(c.P.Ctx, ccv.ProviderPortID, l.PChan)
		if !ok || ch.State == channeltypes.CLOSED {
			return false, nil
		}
		pchan := l.PChan
		_, _ = c.P.Raw("counterparty-closed-channel", func(app env.ABCIApp, ctx sdk.Context) error {
			k := env.IBCK(app).ChannelKeeper
			ch, ok := k.GetChannel(ctx, ccv.ProviderPortID, pchan)
			if !ok {
				return fmt.Errorf("no channel")
			}
			ch.State = channeltypes.CLOSED
			k.SetChannel(ctx, ccv.ProviderPortID, pchan, ch)
			return nil
		})
		return true, nil
	})
}

func (w *stWorker) XWorldForTier2() *XWorld { return w.w }
