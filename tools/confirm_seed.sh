#!/bin/bash
# confirm_seed.sh <PROP> <variant> [full]
# Confirms a seeded change in its scratch worktree /tmp/wt-<PROP>: patch applies and builds, the
# demonstration fails with the change and passes without it, the repository's own tests of x/... pass
# with it (and, with "full", the integration suite too). Writes /tmp/seeded/<PROP>/<variant>/confirm.log.
set -u
P=$1; V=$2; FULL=${3:-}
WT=/tmp/wt-$P; D=/tmp/seeded/$P/$V
export GOFLAGS=-mod=mod GOPROXY=off
LOG=$D/confirm.log; : > $LOG
cd $WT || exit 2
git checkout -q -- . ; git clean -fdq -e tests/e2e/testdata
pkg=$(jq -r .demo_pkg_dir $D/meta.json); pkg=${pkg#/tmp/wt-$P/}; pkg=${pkg#./}
run=$(grep -o 'func Test[A-Za-z0-9_]*' $D/demo_test.go | head -1 | sed 's/func //')
cp $D/demo_test.go $WT/$pkg/zz_demo_test.go
echo "demo pkg=$pkg run=$run" >> $LOG
go test -vet=off -count=1 -run "^${run}\$" ./$pkg/ > $D/demo_without.log 2>&1; echo "demo WITHOUT patch: exit $?" >> $LOG
git apply $D/patch.diff || { echo "PATCH DOES NOT APPLY" >> $LOG; exit 1; }
go build ./... >> $LOG 2>&1; echo "build with patch: exit $?" >> $LOG
go test -vet=off -count=1 -run "^${run}\$" ./$pkg/ > $D/demo_with.log 2>&1; echo "demo WITH patch: exit $?" >> $LOG
rm -f $WT/$pkg/zz_demo_test.go
go test -vet=off -count=1 ./x/... ./app/... 2>&1 | grep -E "^(FAIL|ok|---)" | grep -v "^ok" >> $LOG; echo "unit tests with patch done (lines above = failures)" >> $LOG
if [ "$FULL" = full ]; then
  go test -vet=off -count=1 -timeout 25m ./tests/integration/... 2>&1 | grep -E "^(FAIL|ok|--- FAIL)" >> $LOG
fi
git checkout -q -- . ; git clean -fdq -e tests/e2e/testdata
cat $LOG
