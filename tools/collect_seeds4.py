#!/usr/bin/env python3
"""Round 4 (eight properties, sub-agents were told which mechanisms had been tried before): copies the
confirmed seeded changes from /tmp/seeded4/<P>/f into /verif/seeded/<P>f/."""
import json, os, shutil
caught = {
 "C01": "C01 packets-do-not-reproduce-set",
 "C02": "C02 assignment-outlives-validator - first missed (needs a new validator created on the consensus key of a removed one to show in a consumer set); caught after adding the invariant 'a key assignment on an active consumer belongs to an existing validator' to the keys scenario and an assignment on a never-launching consumer to its removal unit (now also a unit of C02)",
 "C08": "C08 second-outstanding-report:resent - first missed by C08 (C09 caught it as duplicate-in-flight / sent-while-in-flight); the slash scenario now also raises the C08 clause when a report leaves twice",
 "C09": "C09 meter-moved-by-parameter-change - first missed (no unit changed the throttle parameters); caught after adding the governance parameter-update event to the throttle unit",
 "C10": "C10 phase-moved-backwards:DELETED->STOPPED - first missed by C10 (C11 caught it as state-survives-deletion:prefix=6); the stop scenario now carries a phase-monotonicity monitor and is a unit of C10",
 "C11": "C11 not-deleted-when-due",
 "C12": "C12 height-to-id-history - first missed (consumers kept 10000 historical entries, nothing was ever pruned within the bound); caught after giving the batch/expiry vscrelay units a window of two entries",
 "C15": "C15 engine!=recorded, recorded!=topM, recorded-exceeds-M",
}
for p, how in sorted(caught.items()):
    src = f"/tmp/seeded4/{p}/f"
    if not os.path.exists(src + "/patch.diff"):
        continue
    log = open(src + "/confirm.log").read().strip().splitlines() if os.path.exists(src + "/confirm.log") else []
    if not log or log[-1] != "CONFIRMED":
        print(p, "NOT CONFIRMED (skipped):", log[-1] if log else "no log")
        continue
    dst = f"/verif/seeded/{p}f"
    os.makedirs(dst, exist_ok=True)
    shutil.copy(src + "/patch.diff", dst + "/patch.diff")
    shutil.copy(src + "/demo_test.go", dst + "/demo_test.go.txt")
    m = json.load(open(src + "/meta.json"))
    json.dump({
        "property": p, "round": 4, "written_by": "independent sub-agent that saw the property text, its own scratch worktree and a one-line list of mechanisms tried in earlier rounds",
        "summary": m.get("summary"), "needs_to_manifest": m.get("needs"), "clause": m.get("clause"),
        "demo_pkg_dir": m.get("demo_pkg_dir"), "demo_file": "demo_test.go.txt (copy into demo_pkg_dir as zz_verif_demo_test.go)",
        "confirmed_by": "tools/confirm_seed.sh in a scratch worktree of /repo HEAD: demo passes without the change, patch applies and builds, demo fails with it, go test ./x/... ./app/... and ./tests/integration/... pass with it",
        "confirm_log": log, "caught_by": how,
        "how_checked": "tools/try_seed_ov.sh <patch> <PROP> quick (go build -overlay, /repo untouched)",
    }, open(dst + "/meta.json", "w"), indent=1)
    print(p, "->", dst)
