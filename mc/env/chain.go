// Package env drives the real provider / consumer applications block by block on
// copy-on-write branches of their multistores (sdk.Context.CacheContext).
package env

import (
	"bytes"
	"crypto/sha256"
	"encoding/binary"
	"fmt"
	"runtime/debug"
	"sort"
	"time"

	coreheader "cosmossdk.io/core/header"
	storetypes "cosmossdk.io/store/types"

	"github.com/cosmos/cosmos-sdk/baseapp"
	sdk "github.com/cosmos/cosmos-sdk/types"

	abci "github.com/cometbft/cometbft/abci/types"
	cmtproto "github.com/cometbft/cometbft/proto/tendermint/types"
)

// ABCIApp is what both app/provider.App and app/consumer.App offer.
type ABCIApp interface {
	PreBlocker(ctx sdk.Context, req *abci.RequestFinalizeBlock) (*sdk.ResponsePreBlock, error)
	BeginBlocker(ctx sdk.Context) (sdk.BeginBlock, error)
	EndBlocker(ctx sdk.Context) (sdk.EndBlock, error)
	MsgServiceRouter() *baseapp.MsgServiceRouter
	GetKey(storeKey string) *storetypes.KVStoreKey
	GetTKey(storeKey string) *storetypes.TransientStoreKey
}

// Chain is one application object. Many chain states (branches) can live on one Chain.
type Chain struct {
	App     ABCIApp
	ChainID string
	TKeys   []string  // transient stores reset at every block boundary
	Rec     *Recorder // when set, every message and block boundary is logged for the conformance replay
}

// RecOp is one recorded operation of a linear execution.
type RecOp struct {
	// Refresh, when set, is a light-client refresh the relayer model performed at this position
	// (what a MsgUpdateClient would leave behind; see RefreshClient)
	Refresh *RefreshOp
	// Raw, when set, is a harness-level operation (an environment event with no transaction form, e.g.
	// the slashing module reporting downtime) that succeeded at this position; it is written against
	// the application it is handed, so the conformance replay re-executes it on its own application
	Raw        RawFn
	RawName    string
	Msg        sdk.Msg
	Rejected   bool
	Block      bool
	Height     int64 // block that ended
	NextTime   time.Time
	Dumps      map[string][]KV // committed content of the compared stores after EndBlock
	ValUpdates []abci.ValidatorUpdate
}

// Recorder logs a linear execution (fixture prefix + one trace) of one chain.
type Recorder struct {
	// Claims are the (path, value) statements about the counterparty's store the proof oracle
	// verified while the recorded chain handled IBC messages (value nil = proven absent)
	Claims []Claim
	// consumer chains: what is needed to start the same chain on a fresh application
	Genesis     []byte
	GenesisTime time.Time
	InitVals    []abci.ValidatorUpdate
	Ops         []RecOp
	Tainted     string // non-empty: the execution used a harness-only operation that has no transaction form
	Stores      []string
}

// RawFn is a harness-level operation: it must reach keepers through app only.
type RawFn func(app ABCIApp, ctx sdk.Context) error

// Raw runs a harness-level operation as a transaction of the current block (state written iff it
// returns nil) and records it for the conformance replay.
func (s *State) Raw(name string, f RawFn) (err error, panicMsg string) {
	defer func() {
		if r := recover(); r != nil {
			panicMsg = fmt.Sprintf("%v\n%s", r, debug.Stack())
		}
	}()
	cctx, write := s.Ctx.CacheContext()
	em := sdk.NewEventManager()
	cctx = cctx.WithEventManager(em)
	if err = f(s.C.App, cctx); err != nil {
		s.C.obs("raw-reverted", nil, nil)
		return err, ""
	}
	write()
	s.C.obs("raw:"+name, em.ABCIEvents(), nil)
	if s.C.Rec != nil {
		s.C.Rec.Ops = append(s.C.Rec.Ops, RecOp{Raw: f, RawName: name})
	}
	return nil, ""
}

// RefreshOp is a recorded light-client refresh.
type RefreshOp struct {
	ClientID string
	Height   int64
	Time     time.Time
	Force    bool
}

// Claim is one statement verified by the proof oracle.
type Claim struct {
	Store string
	Key   []byte
	Value []byte
}

// RecordNextProvider makes the next NewProvider attach a Recorder.
var RecordNextProvider bool

// State is one state of a chain "inside block Height, after BeginBlock": transactions can be
// delivered, then NextBlock ends the block and begins the next one.
// A State is never mutated after it has been handed to a child: children Branch first.
type State struct {
	C   *Chain
	Ctx sdk.Context
	// Engine is the validator set the consensus engine holds, accumulated from the
	// validator updates returned by InitChain / EndBlock exactly as CometBFT does.
	Engine ValSet
	// LastEnded is the header time of the last block whose EndBlock ran (0 time if none).
	Depth int // nesting depth of cache branches (diagnostic)
}

// ValSet maps a consensus public key (proto bytes, hex) to voting power.
type ValSet map[string]int64

func (v ValSet) Clone() ValSet {
	o := make(ValSet, len(v))
	for k, p := range v {
		o[k] = p
	}
	return o
}

func (v ValSet) Equal(o ValSet) bool {
	if len(v) != len(o) {
		return false
	}
	for k, p := range v {
		if q, ok := o[k]; !ok || q != p {
			return false
		}
	}
	return true
}

func (v ValSet) String() string {
	ks := make([]string, 0, len(v))
	for k := range v {
		ks = append(ks, k)
	}
	sort.Strings(ks)
	var b bytes.Buffer
	b.WriteString("{")
	for i, k := range ks {
		if i > 0 {
			b.WriteString(" ")
		}
		fmt.Fprintf(&b, "%s:%d", short(k), v[k])
	}
	b.WriteString("}")
	return b.String()
}

func short(k string) string {
	if len(k) > 12 {
		return k[len(k)-8:]
	}
	return k
}

// PubKeyID is the canonical map key of a consensus public key.
func PubKeyID(pk interface{ Marshal() ([]byte, error) }) string {
	bz, err := pk.Marshal()
	if err != nil {
		panic(err)
	}
	return fmt.Sprintf("%x", bz)
}

// ApplyUpdates applies validator updates the way CometBFT does; it returns an error for what
// CometBFT would reject (removing an unknown validator, duplicate keys, empty resulting set,
// negative power).
func (v ValSet) ApplyUpdates(ups []abci.ValidatorUpdate) (ValSet, error) {
	o := v.Clone()
	seen := map[string]bool{}
	for _, u := range ups {
		id := PubKeyID(&u.PubKey)
		if seen[id] {
			return nil, fmt.Errorf("duplicate validator update for key %s", short(id))
		}
		seen[id] = true
		if u.Power < 0 {
			return nil, fmt.Errorf("negative power for key %s", short(id))
		}
		if u.Power == 0 {
			if _, ok := o[id]; !ok {
				return nil, fmt.Errorf("removal of unknown validator %s", short(id))
			}
			delete(o, id)
		} else {
			o[id] = u.Power
		}
	}
	if len(o) == 0 {
		return nil, fmt.Errorf("validator set would become empty")
	}
	return o, nil
}

// Branch returns a copy-on-write child state.
func (s State) Branch() State {
	c, _ := s.Ctx.CacheContext()
	// CacheContext installs a fresh event manager that forwards on write; we never write,
	// so give the branch its own manager.
	c = c.WithEventManager(sdk.NewEventManager())
	return State{C: s.C, Ctx: c, Engine: s.Engine, Depth: s.Depth + 1}
}

func (s State) Height() int64   { return s.Ctx.BlockHeight() }
func (s State) Time() time.Time { return s.Ctx.BlockTime() }

// TxResult is the outcome of one message.
type TxResult struct {
	Res    *sdk.Result
	Err    error
	Events []abci.Event
	Panic  string
}

// Deliver runs one message as a transaction of the current block: ValidateBasic, the real msg
// server through the app's router, state written only on success (baseapp runMsgs atomicity).
// s must already be a private branch of the caller.
func (s *State) Deliver(msg sdk.Msg) (res TxResult) {
	defer func() {
		if r := recover(); r != nil {
			// baseapp recovers panics of a tx and turns them into an error result
			res = TxResult{Err: fmt.Errorf("panic in tx: %v", r), Panic: fmt.Sprintf("%v\n%s", r, debug.Stack())}
		}
	}()
	if m, ok := msg.(sdk.HasValidateBasic); ok {
		if err := m.ValidateBasic(); err != nil {
			return TxResult{Err: err}
		}
	}
	if s.C.Rec != nil {
		defer func() { s.C.Rec.Ops = append(s.C.Rec.Ops, RecOp{Msg: msg, Rejected: res.Err != nil}) }()
	}
	h := s.C.App.MsgServiceRouter().Handler(msg)
	if h == nil {
		return TxResult{Err: fmt.Errorf("no handler for %T", msg)}
	}
	cctx, write := s.Ctx.CacheContext()
	cctx = cctx.WithEventManager(sdk.NewEventManager())
	r, err := h(cctx, msg)
	if err != nil {
		s.C.obs("tx-rejected", nil, nil)
		return TxResult{Err: err}
	}
	write()
	var evs []abci.Event
	if r != nil {
		evs = r.Events
	}
	s.C.obs("tx", evs, nil)
	return TxResult{Events: evs, Res: r}
}

// RunTx runs an arbitrary function as a transaction (used for IBC callbacks the Net shim makes):
// f gets a cache branch; it is written iff f returns true.
func (s *State) RunTx(f func(ctx sdk.Context) bool) (events []abci.Event, panicMsg string) {
	defer func() {
		if r := recover(); r != nil {
			panicMsg = fmt.Sprintf("%v\n%s", r, debug.Stack())
		}
	}()
	if s.C.Rec != nil {
		s.C.Rec.Tainted = "harness-level transaction (RunTx)"
	}
	cctx, write := s.Ctx.CacheContext()
	em := sdk.NewEventManager()
	cctx = cctx.WithEventManager(em)
	if f(cctx) {
		write()
		s.C.obs("runtx", em.ABCIEvents(), nil)
	} else {
		s.C.obs("runtx-reverted", nil, nil)
	}
	return em.ABCIEvents(), ""
}

// BlockResult is what one block boundary produced.
type BlockResult struct {
	EndErr, BeginErr error
	Panic            string // recovered panic in End/BeginBlock (a chain halt)
	ValUpdates       []abci.ValidatorUpdate
	EndEvents        []abci.Event
	BeginEvents      []abci.Event
	EngineErr        error // CometBFT would have rejected the validator updates
	EndedHeight      int64
	EndedTime        time.Time
}

func (r BlockResult) Halt() string {
	switch {
	case r.Panic != "":
		return "panic: " + r.Panic
	case r.EndErr != nil:
		return "EndBlock error: " + r.EndErr.Error()
	case r.BeginErr != nil:
		return "BeginBlock error: " + r.BeginErr.Error()
	case r.EngineErr != nil:
		return "consensus engine would reject validator updates: " + r.EngineErr.Error()
	}
	return ""
}

// NextBlock ends the current block and begins the next one dt later. s must be a private branch.
// mid, if not nil, is called between EndBlock and the next BeginBlock (the committed state of the
// ended block), for oracles that judge what a block produced.
func (s *State) NextBlock(dt time.Duration, mid func(s *State, r *BlockResult)) (res BlockResult) {
	defer func() {
		if r := recover(); r != nil {
			res.Panic = fmt.Sprintf("%v\n%s", r, debug.Stack())
		}
	}()
	res.EndedHeight, res.EndedTime = s.Height(), s.Time()
	eb, err := s.C.App.EndBlocker(s.Ctx.WithEventManager(sdk.NewEventManager()))
	if err != nil {
		res.EndErr = err
		return res
	}
	res.ValUpdates = eb.ValidatorUpdates
	res.EndEvents = eb.Events
	s.C.obs("end-block", eb.Events, eb.ValidatorUpdates)
	if len(eb.ValidatorUpdates) > 0 {
		ne, err := s.Engine.ApplyUpdates(eb.ValidatorUpdates)
		if err != nil {
			res.EngineErr = err
			return res
		}
		s.Engine = ne
	}
	s.resetTransient()
	if s.C.Rec != nil {
		op := RecOp{Block: true, Height: s.Height(), NextTime: s.Time().Add(dt), ValUpdates: res.ValUpdates, Dumps: map[string][]KV{}}
		for _, st := range s.C.Rec.Stores {
			op.Dumps[st] = Dump(s.Ctx, s.C.App, st)
		}
		s.C.Rec.Ops = append(s.C.Rec.Ops, op)
	}
	if mid != nil {
		mid(s, &res)
	}
	s.Ctx = WithHeader(s.Ctx, s.C.ChainID, s.Height()+1, s.Time().Add(dt))
	res.BeginErr, res.BeginEvents = s.begin()
	s.C.obs("begin-block", res.BeginEvents, nil)
	return res
}

func (s *State) begin() (error, []abci.Event) {
	if _, err := s.C.App.PreBlocker(s.Ctx.WithEventManager(sdk.NewEventManager()), nil); err != nil {
		return err, nil
	}
	bb, err := s.C.App.BeginBlocker(s.Ctx.WithEventManager(sdk.NewEventManager()))
	if err != nil {
		return err, nil
	}
	return nil, bb.Events
}

func (s *State) resetTransient() {
	for _, name := range s.C.TKeys {
		tk := s.C.App.GetTKey(name)
		if tk == nil {
			continue
		}
		st := s.Ctx.MultiStore().GetKVStore(tk)
		var keys [][]byte
		it := st.Iterator(nil, nil)
		for ; it.Valid(); it.Next() {
			keys = append(keys, append([]byte{}, it.Key()...))
		}
		it.Close()
		for _, k := range keys {
			st.Delete(k)
		}
	}
}

// WithHeader sets the block header the way baseapp.FinalizeBlock does (both the legacy header and
// HeaderInfo; in this SDK version WithBlockHeader does not fill HeaderInfo).
func WithHeader(ctx sdk.Context, chainID string, height int64, t time.Time) sdk.Context {
	// CometBFT is not there to supply hashes: use recognisable stand-ins (the recorded provider consensus
	// state of a consumer genesis takes its root / next-validators hash from this header)
	ah := sha256.Sum256([]byte(fmt.Sprintf("verif-apphash-%s-%d", chainID, height)))
	nv := sha256.Sum256([]byte(fmt.Sprintf("verif-nextvals-%s-%d", chainID, height)))
	h := cmtproto.Header{ChainID: chainID, Height: height, Time: t.UTC(), AppHash: ah[:], NextValidatorsHash: nv[:]}
	return ctx.WithBlockHeader(h).
		WithHeaderInfo(coreheader.Info{ChainID: chainID, Height: height, Time: t.UTC(), AppHash: ah[:]}).
		WithChainID(chainID).
		WithBlockGasMeter(storetypes.NewInfiniteGasMeter()).
		WithGasMeter(storetypes.NewInfiniteGasMeter()).
		WithEventManager(sdk.NewEventManager())
}

// KV is one store entry.
type KV struct{ K, V []byte }

// Dump returns every key/value pair of a module store.
func Dump(ctx sdk.Context, app ABCIApp, store string) []KV {
	key := app.GetKey(store)
	if key == nil {
		panic("no such store: " + store)
	}
	st := ctx.MultiStore().GetKVStore(key)
	it := st.Iterator(nil, nil)
	defer it.Close()
	var out []KV
	for ; it.Valid(); it.Next() {
		out = append(out, KV{append([]byte{}, it.Key()...), append([]byte{}, it.Value()...)})
	}
	return out
}

// DumpPrefix returns the entries under a key prefix.
func DumpPrefix(ctx sdk.Context, app ABCIApp, store string, prefix []byte) []KV {
	st := ctx.MultiStore().GetKVStore(app.GetKey(store))
	it := storetypes.KVStorePrefixIterator(st, prefix)
	defer it.Close()
	var out []KV
	for ; it.Valid(); it.Next() {
		out = append(out, KV{append([]byte{}, it.Key()...), append([]byte{}, it.Value()...)})
	}
	return out
}

// HashStores hashes the full content of the named stores plus the header.
func (s State) HashStores(stores ...string) [32]byte {
	h := sha256.New()
	var n [8]byte
	w := func(b []byte) {
		binary.BigEndian.PutUint64(n[:], uint64(len(b)))
		h.Write(n[:])
		h.Write(b)
	}
	binary.BigEndian.PutUint64(n[:], uint64(s.Height()))
	h.Write(n[:])
	binary.BigEndian.PutUint64(n[:], uint64(s.Time().UnixNano()))
	h.Write(n[:])
	for _, name := range stores {
		w([]byte(name))
		st := s.Ctx.MultiStore().GetKVStore(s.C.App.GetKey(name))
		it := st.Iterator(nil, nil)
		for ; it.Valid(); it.Next() {
			w(it.Key())
			w(it.Value())
		}
		it.Close()
	}
	w([]byte(s.Engine.String()))
	var out [32]byte
	copy(out[:], h.Sum(nil))
	return out
}

// DiffKV returns keys whose value differs between two dumps (sorted inputs).
func DiffKV(a, b []KV) (changed [][]byte) {
	i, j := 0, 0
	for i < len(a) || j < len(b) {
		switch {
		case j >= len(b) || (i < len(a) && bytes.Compare(a[i].K, b[j].K) < 0):
			changed = append(changed, a[i].K)
			i++
		case i >= len(a) || bytes.Compare(a[i].K, b[j].K) > 0:
			changed = append(changed, b[j].K)
			j++
		default:
			if !bytes.Equal(a[i].V, b[j].V) {
				changed = append(changed, a[i].K)
			}
			i++
			j++
		}
	}
	return changed
}

// EventAttr returns the values of attribute key in events of the given type.
func EventAttr(evs []abci.Event, typ, key string) []string {
	var out []string
	for _, e := range evs {
		if e.Type != typ {
			continue
		}
		for _, a := range e.Attributes {
			if a.Key == key {
				out = append(out, a.Value)
			}
		}
	}
	return out
}
