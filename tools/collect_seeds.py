#!/usr/bin/env python3
"""Copies the confirmed seeded changes from /tmp/seeded into /verif/seeded/<id>/ with a meta.json that
records the property, what the change needs in order to manifest, what was run to confirm it, and which
check catches it."""
import json, os, shutil, glob
caught = {
 "C01a": ("C01", "consumer-stored-set / consumer-engine-set (vscrelay batch unit)"),
 "C01b": ("C01", "packets-do-not-reproduce-set"),
 "C02a": ("C02", "eligible-missing"),
 "C02b": (None, "cannot manifest on the repaired tree: since fix d4022b9 ComputeConsumerNextValSet hands ComputeNextValidators only the provider's active validators when inactive validators are not allowed, so moving the truncation after the filter no longer admits an inactive validator on the consensus path (only the gRPC preview query is affected, which no check judges); ./check C02 stays green with it"),
 "C03a": ("C03", "topn-fn, threshold, topn-not-opted-in, optin-provenance:launch"),
 "C03b": ("C03", "threshold-after-topn-change"),
 "C04a": ("C04", "setcap-outranked (in situ on the capped consumer of the eligibility search)"),
 "C04b": ("C04", "powercap-sum, powercap-zero (extreme alphabet)"),
 "C05a": ("C05", "forbidden-assignment-accepted:provider-key-of-another-validator, key-with-two-owners"),
 "C05b": ("C05", "validator-created-with-known-key, key-with-two-owners"),
 "C06a": ("C06", "key-not-attributed:current"),
 "C06b": ("C06", "key-not-attributed:current (C05 also reports forbidden-assignment-accepted)"),
 "C07a": ("C07", "valid-evidence-rejected, misbehaving-signer-not-punished"),
 "C07b": ("C07", "misbehaving-signer-not-punished"),
 "C08a": ("C08", "slash-acks-lost"),
 "C08b": ("C08", "no-slash-ack:already-jailed (epoch3 unit)"),
 "C09a": ("C09", "meter-deduction"),
 "C09b": ("C09", "duplicate-in-flight, sent-while-in-flight"),
 "C10a": ("C10", "not-scheduled-exactly-once, registered-but-scheduled, launch-should-succeed, launched-before-spawn-time"),
 "C10b": ("C10", "failed-launch-not-registered, failed-launch-left-client"),
 "C11a": ("C11", "state-survives-deletion:prefix=5, state-survives-deletion:prefix=6 (and more after a second timeout)"),
 "C11b": ("C11", "not-deleted-when-due"),
 "C12a": ("C12", "unissued-id-not-error-acked"),
 "C12b": ("C12", "vsc-id-height"),
 "C13a": ("C13", "time-queue-differs:59, foreign-state-changed:prefix=57/58"),
 "C13b": ("C13", "foreign-state-changed:prefix=55"),
 "C14a": ("C14", "topn-set-by-non-gov"),
 "C14b": ("C14", "validator-message-by-other-signer"),
 "C15a": ("C15", "recorded!=topM, engine!=recorded, updates!=diff, recorded-exceeds-M"),
 "C15b": ("C15", "view-mint-bonded-ratio"),
 "C16a": ("C16", "credit-paid-in-denom-not-allowed-for-that-consumer (C13 catches the same change as foreign-state-changed:prefix=55)"),
 "C16b": ("C16", "credit-accounting, validator-share, commission"),
 "C17a": ("C17", "two-consumers-one-client, client-index-not-inverse"),
 "C17b": ("C17", "two-consumers-one-client (fixture), try-acceptance:want=false, well-formed-handshake-rejected"),
 "C18a": ("C18", "map-order-dependence:x/ccv/provider/keeper/validator_set_update.go:104"),
 "C18b": ("C18", "map-order-dependence:x/ccv/types/utils.go:37"),
 "C19a": ("C19", "failed-launch-not-rolled-back (fault grid)"),
 "C19b": ("C19", "halt:provider:BeginBlock error: failed to retrieve queued infraction parameters ... (infraction unit; C20 reports schedule-vs-pending)"),
 "C20a": ("C20", "equal-request-not-cancelling"),
 "C20b": ("C20", "schedule-vs-pending, wrong-due-time"),
}
# round 2 (ids c, d): written by fresh sub-agents told what round 1 had already produced
caught.update({
 "C01c": ("C01", "consumer-stored-set / consumer-engine-set (vscrelay latebatch unit)"),
 "C01d": ("C01", "consumer-stored-set, consumer-engine-set (batch unit)"),
 "C02c": ("C02", "ineligible-member:...opted=false... (C03 also reports optin-provenance:launch)"),
 "C02d": ("C02", "ineligible-member:...active=false, eligible-missing"),
 "C08c": ("C08", "second-outstanding-report (ackloop unit, harness-side ledger of outstanding reports)"),
 "C08d": ("C08", "slash-ack-wrong-address (ackloop unit)"),
 "C11c": ("C11", "packet-sent-after-stop, stopped-consumer-still-updated (latechan unit)"),
 "C11d": ("C11", "state-survives-deletion:prefix=23"),
 "C16c": ("C16", "provider-share-not-sent, transfer-count (duplicate-denom unit)"),
 "C16d": ("C16", "credit-accounting, distribution-account-vs-books (turnover event)"),
 "C19c": ("C19", "halt:provider:BeginBlock error: cannot delete non-stopped chain (stop unit, both in-flight packets time out)"),
 "C19d": ("C19", "swallowed-fault-changes-distribution:AllocateConsumerRewards (fault grid)"),
})
n = 0
dirs = [(d, d.split('/')[-2], d.split('/')[-1], '/tmp/wt-') for d in sorted(glob.glob('/tmp/seeded/C??/[ab]'))]
dirs += [(d, d.split('/')[-2], {'a': 'c', 'b': 'd'}[d.split('/')[-1]], '/tmp/wt2-') for d in sorted(glob.glob('/tmp/seeded2/C??/[ab]'))]
for d, prop, var, wtp in dirs:
    sid = prop + var
    log = os.path.join(d, 'confirm.log')
    if not os.path.exists(log):
        print("no confirm.log", sid); continue
    lines = open(log).read().strip().splitlines()
    if not lines or not lines[-1].startswith('CONFIRMED'):
        print("NOT confirmed:", sid, lines[-1] if lines else ''); continue
    m = json.load(open(os.path.join(d, 'meta.json')))
    dst = f'/verif/seeded/{sid}'
    os.makedirs(dst, exist_ok=True)
    shutil.copy(os.path.join(d, 'patch.diff'), dst)
    shutil.copy(os.path.join(d, 'demo_test.go'), os.path.join(dst, 'demo_test.go'))
    if sid not in caught:
        print("no catching check recorded for", sid); continue
    chk, keys = caught[sid]
    meta = {
      "id": sid, "property": prop,
      "summary": m.get("summary"), "needs_in_order_to_manifest": m.get("needs"),
      "demonstration": {"file": "demo_test.go (copy into the package directory)", "package_dir": m.get("demo_pkg_dir"),
                        "run": next((l.split('=',1)[1] for l in lines if l.startswith('demo cmd=')), None)},
      "written_by": "independent sub-agent given only the property text and a scratch worktree",
      "confirmed_by_me": {"how": "tools/confirm_seed.sh in a scratch worktree of /repo HEAD (%s%s): demonstration without the change, git apply, go build ./..., demonstration with the change, go test ./x/... ./app/..., go test ./tests/integration/..." % (wtp, prop),
                          "log": lines},
      "caught_by_check": chk, "violation_keys": keys,
      "how_to_rerun": f"git -C /repo apply /verif/seeded/{sid}/patch.diff && (cd /verif && ./check {chk or prop} quick); git -C /repo checkout -- .",
    }
    json.dump(meta, open(os.path.join(dst, 'meta.json'), 'w'), indent=1)
    n += 1
print("collected", n)
