package env

import (
	"encoding/json"
	"fmt"
	"time"

	"cosmossdk.io/log"
	"cosmossdk.io/math"

	dbm "github.com/cosmos/cosmos-db"
	codectypes "github.com/cosmos/cosmos-sdk/codec/types"
	cryptocodec "github.com/cosmos/cosmos-sdk/crypto/codec"
	"github.com/cosmos/cosmos-sdk/crypto/keys/ed25519"
	"github.com/cosmos/cosmos-sdk/crypto/keys/secp256k1"
	cryptotypes "github.com/cosmos/cosmos-sdk/crypto/types"
	simtestutil "github.com/cosmos/cosmos-sdk/testutil/sims"
	sdk "github.com/cosmos/cosmos-sdk/types"
	authtypes "github.com/cosmos/cosmos-sdk/x/auth/types"
	banktypes "github.com/cosmos/cosmos-sdk/x/bank/types"
	distrtypes "github.com/cosmos/cosmos-sdk/x/distribution/types"
	govtypes "github.com/cosmos/cosmos-sdk/x/gov/types"
	minttypes "github.com/cosmos/cosmos-sdk/x/mint/types"
	slashingtypes "github.com/cosmos/cosmos-sdk/x/slashing/types"
	stakingtypes "github.com/cosmos/cosmos-sdk/x/staking/types"

	abci "github.com/cometbft/cometbft/abci/types"
	tmprotocrypto "github.com/cometbft/cometbft/proto/tendermint/crypto"
	cmttypes "github.com/cometbft/cometbft/types"

	appProvider "github.com/cosmos/interchain-security/v7/app/provider"
	providerkeeper "github.com/cosmos/interchain-security/v7/x/ccv/provider/keeper"
	providertypes "github.com/cosmos/interchain-security/v7/x/ccv/provider/types"
)

const BondDenom = "stake"

// PowerReduction is sdk.DefaultPowerReduction (10^6 base units per unit of voting power).
const PowerReduction = int64(1_000_000)

var GenesisTime = time.Date(2030, 1, 1, 0, 0, 0, 0, time.UTC)

// Acct is an ordinary account.
type Acct struct {
	Name string
	Priv *secp256k1.PrivKey
	Addr sdk.AccAddress
}

func NewAcct(name string) Acct {
	pk := secp256k1.GenPrivKeyFromSecret([]byte("verif-acct-" + name))
	return Acct{Name: name, Priv: pk, Addr: sdk.AccAddress(pk.PubKey().Address())}
}

func (a Acct) String() string { return a.Addr.String() }

// ConsKey is a consensus key pair derived from a seed.
type ConsKey struct {
	Name string
	Priv *ed25519.PrivKey
	Pub  cryptotypes.PubKey
}

func NewConsKey(name string) ConsKey {
	pk := ed25519.GenPrivKeyFromSecret([]byte("verif-cons-" + name))
	return ConsKey{Name: name, Priv: pk, Pub: pk.PubKey()}
}

func (k ConsKey) ConsAddr() sdk.ConsAddress { return sdk.ConsAddress(k.Pub.Address()) }

func (k ConsKey) TM() tmprotocrypto.PublicKey {
	pk, err := cryptocodec.ToCmtProtoPublicKey(k.Pub)
	if err != nil {
		panic(err)
	}
	return pk
}

func (k ConsKey) ID() string { pk := k.TM(); return PubKeyID(&pk) }

// JSON is the form MsgAssignConsumerKey / MsgOptIn expect.
func (k ConsKey) JSON() string {
	return fmt.Sprintf(`{"@type":"/cosmos.crypto.ed25519.PubKey","key":"%s"}`, b64(k.Pub.Bytes()))
}

// Val is one provider validator of the fixture.
type Val struct {
	Idx      int
	Oper     Acct
	Key      ConsKey
	SelfTok  int64 // genesis self delegation, base units
	DelegTok int64 // genesis delegation of the shared delegator, base units
	InGen    bool  // part of genesis (else only keys + funded operator account)
}

func (v Val) ValAddr() sdk.ValAddress   { return sdk.ValAddress(v.Oper.Addr) }
func (v Val) ConsAddr() sdk.ConsAddress { return v.Key.ConsAddr() }
func (v Val) PAddr() providertypes.ProviderConsAddress {
	return providertypes.NewProviderConsAddress(v.ConsAddr())
}

// ProviderCfg describes the provider fixture.
type ProviderCfg struct {
	ChainID        string
	SelfTokens     []int64 // per genesis validator, base units
	DelegTokens    []int64 // optional, per genesis validator, delegated by the shared delegator
	ExtraVals      int     // keys + funded operator accounts for validators created later
	Users          int     // extra funded user accounts
	MaxValidators  uint32
	Unbonding      time.Duration
	BlocksPerEpoch int64
	MaxProvCons    int64
	SlashPeriod    time.Duration
	SlashFraction  string
	CcvTimeout     time.Duration
	RewardEpochs   int64
	CommunityTax   string
	MutateGenesis  func(gen map[string]json.RawMessage, p *Provider)
}

func (c *ProviderCfg) defaults() {
	if c.ChainID == "" {
		c.ChainID = "provider"
	}
	if c.MaxValidators == 0 {
		c.MaxValidators = 100
	}
	if c.Unbonding == 0 {
		c.Unbonding = 1000 * time.Second
	}
	if c.BlocksPerEpoch == 0 {
		c.BlocksPerEpoch = 1
	}
	if c.MaxProvCons == 0 {
		c.MaxProvCons = 180
	}
	if c.SlashPeriod == 0 {
		c.SlashPeriod = time.Hour
	}
	if c.SlashFraction == "" {
		c.SlashFraction = "0.05"
	}
	if c.CcvTimeout == 0 {
		c.CcvTimeout = 4 * 7 * 24 * time.Hour
	}
	if c.RewardEpochs == 0 {
		c.RewardEpochs = 24
	}
	if c.CommunityTax == "" {
		c.CommunityTax = "0.02"
	}
}

// Provider is one provider application object with its fixture data and the root state
// (inside block 1, after BeginBlock).
type Provider struct {
	Chain
	PApp      *appProvider.App
	K         providerkeeper.Keeper
	Cfg       ProviderCfg
	Vals      []Val
	Users     []Acct
	Delegator Acct
	GovAddr   string
	Root      State
	InitVals  []abci.ValidatorUpdate
	// for the conformance replay through the full ABCI stack (tier2.go)
	GenesisBytes []byte
	Accts        []Acct // genesis accounts in account-number order
}

const acctFunds = int64(1_000_000_000_000)

// NewProvider builds the app, runs the app's real InitChainer on a branch of the empty root store
// and begins block 1.
func NewProvider(cfg ProviderCfg) (*Provider, error) {
	cfg.defaults()
	app := appProvider.New(log.NewNopLogger(), dbm.NewMemDB(), nil, true, simtestutil.EmptyAppOptions{})
	p := &Provider{PApp: app, Cfg: cfg}
	registerApp(app)
	p.Chain = Chain{App: app, ChainID: cfg.ChainID, TKeys: []string{"transient_params"}}
	p.K = app.GetProviderKeeper()
	p.GovAddr = authtypes.NewModuleAddress(govtypes.ModuleName).String()
	p.Delegator = NewAcct("delegator")
	for i := 0; i < cfg.Users; i++ {
		p.Users = append(p.Users, NewAcct(fmt.Sprintf("user%d", i)))
	}
	n := len(cfg.SelfTokens)
	for i := 0; i < n+cfg.ExtraVals; i++ {
		v := Val{Idx: i, Oper: NewAcct(fmt.Sprintf("val%d", i)), Key: NewConsKey(fmt.Sprintf("val%d", i))}
		if i < n {
			v.InGen = true
			v.SelfTok = cfg.SelfTokens[i]
			if i < len(cfg.DelegTokens) {
				v.DelegTok = cfg.DelegTokens[i]
			}
		}
		p.Vals = append(p.Vals, v)
	}

	enc := appProvider.MakeTestEncodingConfig()
	cdc := enc.Codec
	gen := appProvider.NewDefaultGenesisState(cdc)

	// auth + bank
	var accounts []authtypes.GenesisAccount
	var balances []banktypes.Balance
	addAcct := func(a Acct) {
		p.Accts = append(p.Accts, a)
		accounts = append(accounts, authtypes.NewBaseAccount(a.Addr, a.Priv.PubKey(), uint64(len(accounts)), 0))
		balances = append(balances, banktypes.Balance{Address: a.Addr.String(),
			Coins: sdk.NewCoins(sdk.NewInt64Coin(BondDenom, acctFunds))})
	}
	addAcct(p.Delegator)
	for _, u := range p.Users {
		addAcct(u)
	}
	for _, v := range p.Vals {
		addAcct(v.Oper)
	}
	addAcct(Relayer)
	gen[authtypes.ModuleName] = cdc.MustMarshalJSON(authtypes.NewGenesisState(authtypes.DefaultParams(), accounts))

	// staking: validators are listed unbonded with their delegations, so that staking's own
	// InitGenesis bonds them and fires the hooks (slashing signing infos, distribution records).
	var svals []stakingtypes.Validator
	var dels []stakingtypes.Delegation
	total := math.ZeroInt()
	for _, v := range p.Vals {
		if !v.InGen {
			continue
		}
		pkAny, err := codectypes.NewAnyWithValue(v.Key.Pub)
		if err != nil {
			return nil, err
		}
		tok := math.NewInt(v.SelfTok + v.DelegTok)
		total = total.Add(tok)
		svals = append(svals, stakingtypes.Validator{
			OperatorAddress:   v.ValAddr().String(),
			ConsensusPubkey:   pkAny,
			Status:            stakingtypes.Unbonded,
			Tokens:            tok,
			DelegatorShares:   math.LegacyNewDecFromInt(tok),
			Description:       stakingtypes.Description{Moniker: fmt.Sprintf("val%d", v.Idx)},
			UnbondingTime:     time.Unix(0, 0).UTC(),
			Commission:        stakingtypes.NewCommission(math.LegacyNewDecWithPrec(1, 1), math.LegacyOneDec(), math.LegacyOneDec()),
			MinSelfDelegation: math.OneInt(),
		})
		dels = append(dels, stakingtypes.NewDelegation(v.Oper.Addr.String(), v.ValAddr().String(), math.LegacyNewDec(v.SelfTok)))
		if v.DelegTok > 0 {
			dels = append(dels, stakingtypes.NewDelegation(p.Delegator.Addr.String(), v.ValAddr().String(), math.LegacyNewDec(v.DelegTok)))
		}
	}
	sp := stakingtypes.DefaultParams()
	sp.BondDenom = BondDenom
	sp.MaxValidators = cfg.MaxValidators
	sp.UnbondingTime = cfg.Unbonding
	sp.HistoricalEntries = 10000
	gen[stakingtypes.ModuleName] = cdc.MustMarshalJSON(&stakingtypes.GenesisState{Params: sp, Validators: svals, Delegations: dels})
	balances = append(balances, banktypes.Balance{
		Address: authtypes.NewModuleAddress(stakingtypes.NotBondedPoolName).String(),
		Coins:   sdk.NewCoins(sdk.NewCoin(BondDenom, total)),
	})
	gen[banktypes.ModuleName] = cdc.MustMarshalJSON(banktypes.NewGenesisState(banktypes.DefaultParams(), balances, nil, nil, nil))

	// no inflation: keeps supply / fee collector quiet unless a scenario wants fees
	mg := minttypes.DefaultGenesisState()
	mg.Minter.Inflation = math.LegacyZeroDec()
	mg.Params.InflationMin = math.LegacyZeroDec()
	mg.Params.InflationMax = math.LegacyZeroDec()
	mg.Params.InflationRateChange = math.LegacyZeroDec()
	mg.Params.MintDenom = BondDenom
	gen[minttypes.ModuleName] = cdc.MustMarshalJSON(mg)

	dg := distrtypes.DefaultGenesisState()
	dg.Params.CommunityTax = math.LegacyMustNewDecFromStr(cfg.CommunityTax)
	gen[distrtypes.ModuleName] = cdc.MustMarshalJSON(dg)

	sg := slashingtypes.DefaultGenesisState()
	gen[slashingtypes.ModuleName] = cdc.MustMarshalJSON(sg)

	pg := providertypes.DefaultGenesisState()
	pg.Params.BlocksPerEpoch = cfg.BlocksPerEpoch
	pg.Params.MaxProviderConsensusValidators = cfg.MaxProvCons
	pg.Params.SlashMeterReplenishPeriod = cfg.SlashPeriod
	pg.Params.SlashMeterReplenishFraction = cfg.SlashFraction
	pg.Params.CcvTimeoutPeriod = cfg.CcvTimeout
	pg.Params.NumberOfEpochsToStartReceivingRewards = cfg.RewardEpochs
	gen[providertypes.ModuleName] = cdc.MustMarshalJSON(pg)

	if cfg.MutateGenesis != nil {
		cfg.MutateGenesis(gen, p)
	}
	stateBytes, err := json.Marshal(gen)
	if err != nil {
		return nil, err
	}

	p.GenesisBytes = stateBytes
	if RecordNextProvider {
		RecordNextProvider = false
		p.Chain.Rec = &Recorder{Stores: Tier2Stores}
	}
	base := app.NewUncachedContext(false, WithHeader(sdk.Context{}, cfg.ChainID, 0, GenesisTime).BlockHeader())
	ctx, _ := base.CacheContext()
	ctx = WithHeader(ctx, cfg.ChainID, 0, GenesisTime)
	if err := app.StoreConsensusParams(ctx, cmttypes.DefaultConsensusParams().ToProto()); err != nil {
		return nil, err
	}
	res, err := app.InitChainer(ctx, &abci.RequestInitChain{
		ChainId: cfg.ChainID, Time: GenesisTime, InitialHeight: 1, AppStateBytes: stateBytes,
	})
	if err != nil {
		return nil, fmt.Errorf("InitChainer: %w", err)
	}
	p.InitVals = res.Validators
	eng, err := ValSet{}.ApplyUpdates(res.Validators)
	if err != nil {
		return nil, fmt.Errorf("genesis validator set: %w", err)
	}
	st := State{C: &p.Chain, Ctx: ctx, Engine: eng, Depth: 1}
	st.resetTransient()
	st.Ctx = WithHeader(st.Ctx, cfg.ChainID, 1, GenesisTime.Add(5*time.Second))
	if err, _ := st.begin(); err != nil {
		return nil, fmt.Errorf("BeginBlock(1): %w", err)
	}
	p.Root = st
	return p, nil
}
