package scen

import (
	"fmt"
	"time"

	sdk "github.com/cosmos/cosmos-sdk/types"
	minttypes "github.com/cosmos/cosmos-sdk/x/mint/types"

	"verif/mc/engine"
	"verif/mc/env"

	providertypes "github.com/cosmos/interchain-security/v7/x/ccv/provider/types"
)

// FaultSearch is the history part of C19 (ii): an explicit-state search over provider histories that
// starts in the rich multi-consumer state of the fault fixture (launched consumers with channels and
// reward credits, stopped consumers about to be deleted, consumers about to launch) and, at EVERY
// block boundary of EVERY explored history, re-runs that boundary once per armed external call with
// that call failing — every fault point of every explored history, judged like the grid.
type FaultSearch struct{}

func (c FaultSearch) Name() string           { return "faultsearch" }
func (c FaultSearch) Params() map[string]any { return map[string]any{} }

type fsNode struct {
	S      env.State
	NewIDs int // consumers created by events (bounded)
}

type fsWorker struct {
	ff    *faultFixture
	tab   Table
	root  *fsNode
	stats *engine.Stats
}

func (c FaultSearch) NewWorker(stats *engine.Stats) (engine.Worker, error) {
	ff, err := buildFaultFixture()
	if err != nil {
		return nil, err
	}
	w := &fsWorker{ff: ff, stats: stats, root: &fsNode{S: ff.pre}}
	w.build()
	return w, nil
}

func (w *fsWorker) RootViolations() []V            { return nil }
func (w *fsWorker) Root() engine.Node              { return w.root }
func (w *fsWorker) Enabled(n engine.Node) []string { return w.tab.Names() }
func (w *fsWorker) Apply(n engine.Node, ev string) (engine.Node, []V) {
	return w.tab.Apply(n, ev)
}
func (w *fsWorker) Hash(n engine.Node) [32]byte {
	x := n.(*fsNode)
	return mix(x.S.HashStores("provider", "staking", "bank", "distribution", "ibc"), fmt.Sprint(x.NewIDs))
}

func (w *fsWorker) block(n engine.Node, dt time.Duration) (engine.Node, []V) {
	x := n.(*fsNode)
	ff := w.ff
	okPost, calls, fail := ff.runBlockFrom(x.S, -1, dt)
	if fail != "" {
		return nil, []V{vf("C19", "halt:provider:"+classify(fail), "fault-free block fails: %s", fail)}
	}
	var vs []V
	ff.cacheValid = false
	for i := range calls {
		_, v := ff.judge(x.S, okPost, dt, i, w.stats)
		vs = append(vs, v...)
		w.stats.Count("fault-points-in-histories")
	}
	if len(calls) > 0 {
		w.stats.Count("blocks-with-fault-points")
	}
	return &fsNode{S: okPost, NewIDs: x.NewIDs}, vs
}

func (w *fsWorker) build() {
	p := w.ff.p
	A := p.Users[0].Addr.String()
	U := p.Cfg.Unbonding
	for _, dt := range []time.Duration{5 * time.Second, U} {
		dt := dt
		w.tab.Add(fmt.Sprintf("block(%s)", dt), func(n engine.Node) (engine.Node, []V) { return w.block(n, dt) })
	}
	tx := func(name string, f func(x *fsNode, s *env.State) bool) {
		w.tab.Add(name, func(n engine.Node) (engine.Node, []V) {
			x := n.(*fsNode)
			c := &fsNode{S: x.S.Branch(), NewIDs: x.NewIDs}
			if !f(c, &c.S) {
				return nil, nil
			}
			return c, nil
		})
	}
	msg := func(name string, mk func(x *fsNode) sdk.Msg) {
		tx(name, func(x *fsNode, s *env.State) bool {
			m := mk(x)
			return m != nil && s.Deliver(m).Err == nil
		})
	}
	msg("delegate(v0,+1)", func(*fsNode) sdk.Msg { return env.MsgDelegate(p.Delegator, p.Vals[0], unit) })
	msg("optout(v1,c0)", func(*fsNode) sdk.Msg { return env.MsgOptOut(p.Vals[1], "0") })
	msg("remove(c0)", func(*fsNode) sdk.Msg { return env.MsgRemoveConsumer(A, "0") })
	// a new consumer due at once, with / without anybody opted in
	for _, opt := range []bool{true, false} {
		opt := opt
		tx(fmt.Sprintf("create(spawn=now,optin=%v)", opt), func(x *fsNode, s *env.State) bool {
			if x.NewIDs >= 2 {
				return false
			}
			next, _ := p.K.GetConsumerId(s.Ctx)
			chain := fmt.Sprintf("flt-n%d", next)
			if s.Deliver(env.MsgCreateConsumer(A, chain, env.ConsumerInit{Spawn: s.Time()}.Params(chain), &providertypes.PowerShapingParameters{})).Err != nil {
				return false
			}
			if opt && s.Deliver(env.MsgOptIn(p.Vals[int(next)%3], fmt.Sprint(next), nil)).Err != nil {
				return false
			}
			x.NewIDs++
			return true
		})
	}
	// a fresh reward credit for consumer 0 / 1, backed by coins in the rewards pool
	for _, id := range []string{"0", "1"} {
		id := id
		tx("credit(c"+id+")", func(x *fsNode, s *env.State) bool {
			if p.K.GetConsumerPhase(s.Ctx, id) != providertypes.CONSUMER_PHASE_LAUNCHED {
				return false
			}
			denom := ibcDenom("flt")
			coins := sdk.NewCoins(sdk.NewInt64Coin(denom, 100))
			if p.PApp.BankKeeper.MintCoins(s.Ctx, minttypes.ModuleName, coins) != nil {
				return false
			}
			if p.PApp.BankKeeper.SendCoinsFromModuleToModule(s.Ctx, minttypes.ModuleName, providertypes.ConsumerRewardsPool, coins) != nil {
				return false
			}
			cur, _ := p.K.GetConsumerRewardsAllocationByDenom(s.Ctx, id, denom)
			cur.Rewards = cur.Rewards.Add(sdk.NewDecCoinsFromCoins(coins...)...)
			return p.K.SetConsumerRewardsAllocationByDenom(s.Ctx, id, denom, cur) == nil
		})
	}
	msg("optin(v0,c1)", func(x *fsNode) sdk.Msg {
		if p.K.IsOptedIn(x.S.Ctx, "1", p.Vals[0].PAddr()) {
			return nil
		}
		return env.MsgOptIn(p.Vals[0], "1", nil)
	})
}
