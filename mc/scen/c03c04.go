package scen

import "time"

const gridRule = "exhaustive grid: every point of the stated finite input space (all multisets of validator powers up to the stated length over the stated alphabet x every percentage / cap / priority subset) is evaluated through the real keeper functions and compared with a closed-form reference; distinct_nontrivial = power vectors for which the parameter actually changes the result"

func init() {
	register("C03", func(tier string) CheckSpec {
		depth, budget := 3, 240*time.Second
		grid := TopNGrid([]int64{1, 2, 3, 5, 8}, 5)
		if tier == "thorough" {
			depth, budget = 5, 20*time.Minute
			grid = TopNGrid([]int64{1, 2, 3, 4, 5, 8, 13}, 7)
		}
		us := []Unit{grid}
		us = append(us, eligibilityUnits(depth)...)
		return CheckSpec{Level: "model_checking", Rule: searchRule + "; plus " + gridRule, Assumptions: commonAssumptions, Budget: budget, Units: us,
			MustSee: []string{"topn-threshold:1", "topn-threshold:2", "optout-topn:mustReject=true", "optout-topn:mustReject=false", "distinct-thresholds-per-vector:2"}}
	})
	register("C04", func(tier string) CheckSpec {
		budget := 120 * time.Second
		us := []Unit{
			PowerShapeGrid([]int64{1, 2, 3, 7, 20, 1_000_000}, 5, "small+large"),
			PowerShapeGrid([]int64{1, 1 << 40, 1 << 56, (1 << 60) / 8 * 7 / 5}, 4, "extreme (total below CometBFT MaxTotalVotingPower)"),
		}
		if tier == "thorough" {
			budget = 20 * time.Minute
			us = []Unit{
				PowerShapeGrid([]int64{1, 2, 3, 5, 7, 20, 101, 1_000_000}, 6, "small+large"),
				PowerShapeGrid([]int64{1, 3, 1 << 40, 1 << 56, (1 << 60) / 8 * 7 / 6}, 5, "extreme (total below CometBFT MaxTotalVotingPower)"),
			}
		}
		us = append(us, Search{Sc: Eligibility{M: 4, MaxVals: 4, Set: "B", Epoch: 1}, Depth: 3})
		return CheckSpec{Level: "exploration", Rule: gridRule + "; plus the eligibility search (set B has a power-capped and a set-capped consumer judged in situ)", Assumptions: []string{
			"the grid composes PartitionBasedOnPriorityList, CapValidatorSet and NoMoreThanPercentOfTheSum the way ComputeNextValidators does; the composition inside ComputeNextValidators itself is exercised by the eligibility search on two capped consumers",
			"powers above the alphabets (and totals above CometBFT's MaxTotalVotingPower) are not enumerated",
		}, Budget: budget, Units: us,
			MustSee: []string{"powercap:achievable-and-redistributed", "powercap:not-achievable", "setcap:truncated", "setcap:priority-validator-included-over-stronger"}}
	})
}
