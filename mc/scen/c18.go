package scen

import "time"

func init() {
	register("C18", func(tier string) CheckSpec {
		budget := 285 * time.Second
		d := 0
		if tier == "thorough" {
			budget, d = 30*time.Minute, 1
		}
		det := func(u Search) Unit { return Search{Sc: detScenario{u.Sc}, Depth: u.Depth} }
		us := []Unit{StaticScan{},
			det(Search{Sc: VSCRelay{Variant: "batch", Epoch: 1, Delay: 1}, Depth: 6 + d}),
			det(Search{Sc: VSCRelay{Variant: "late", Epoch: 1, Delay: 1, Two: true}, Depth: 4 + d}),
			det(Search{Sc: Slash{Variant: "full"}, Depth: 3 + d}),
			det(Search{Sc: Slash{Variant: "ackloop"}, Depth: 5 + d}),
			det(Search{Sc: Eligibility{M: 2, MaxVals: 4, Set: "A", Epoch: 1}, Depth: 3 + d}),
			det(Search{Sc: Eligibility{M: 4, MaxVals: 4, Set: "B", Epoch: 1}, Depth: 3 + d}),
			det(Search{Sc: Rewards{Fraction: "0.75", Period: 2}, Depth: 4 + d}),
			det(Search{Sc: Rewards{Fraction: "0.5", Period: 1, Prov: true}, Depth: 4 + d}),
			det(Search{Sc: Evidence{Variant: "base"}, Depth: 2 + d}),
			det(Search{Sc: Lifecycle{Variant: "base"}, Depth: 3 + d}),
			det(Search{Sc: Stop{Variant: "base"}, Depth: 3 + d}),
			det(Search{Sc: Keys{Variant: "base"}, Depth: 3 + d}),
		}
		return CheckSpec{Level: "model_checking", Rule: searchRule + "; schedules = iteration orders of every dynamic map-range occurrence (all k! orders for k <= 4 keys) inside every explored transition, plus a second independent replica for every transition", Assumptions: append([]string{
			"map ranges are found with go/types on the current tree and rewritten through `go build -overlay` (no change to /repo); iteration order inside dependencies (SDK, ibc-go, CometBFT) is not owned",
			"replica equality is judged on the canonical state hash (all observable stores, consensus-engine validator sets, in-flight packets and acknowledgement bytes); event logs are not compared",
			"a deviation changes one occurrence per re-execution of a transition; since every deviated transition must land in the identical state, any combination across transitions is covered by induction",
		}, commonAssumptions...), Budget: budget, Units: us,
			MustSee: []string{"map-range-site", "transition-on-two-replicas", "map-range-occurrence:x/ccv/types/utils.go", "alternative-order-executed"}}
	})
}
