// Package scen holds the drivers ("scenarios"): fixtures, event alphabets, reference models and
// oracles for the properties C01..C20.
package scen

import (
	"crypto/sha256"
	abci "github.com/cometbft/cometbft/abci/types"

	"encoding/json"
	cmted25519 "github.com/cometbft/cometbft/crypto/ed25519"
	"os"
	"sync"
	"time"

	slashingtypes "github.com/cosmos/cosmos-sdk/x/slashing/types"

	"fmt"
	"sort"
	"strings"

	"verif/mc/engine"
	"verif/mc/env"
)

type V = engine.Violation

// EvFn executes one event on (a branch of) n. A nil Node means "not applicable here".
type EvFn func(n engine.Node) (engine.Node, []V)

// Table is an ordered event alphabet.
type Table struct {
	names []string
	fns   map[string]EvFn
}

func (t *Table) Add(name string, fn EvFn) {
	if t.fns == nil {
		t.fns = map[string]EvFn{}
	}
	if _, dup := t.fns[name]; dup {
		panic("duplicate event " + name)
	}
	t.names = append(t.names, name)
	t.fns[name] = fn
}

func (t *Table) Names() []string { return t.names }

func (t *Table) Apply(n engine.Node, ev string) (engine.Node, []V) {
	fn, ok := t.fns[ev]
	if !ok {
		return nil, []V{{Property: "HARNESS", Key: "unknown-event", Msg: "unknown event " + ev}}
	}
	return fn(n)
}

// haltViolation turns a failed block into a violation: a BeginBlock / EndBlock error or panic is a
// C19 violation. Validator updates that CometBFT would reject (unknown validator removed, duplicate
// key) mean the engine's set can no longer follow the application's: C15 on the provider, C01 on a
// consumer. An update that would leave *no* validator is not judged: keeping at least one validator
// bonded / opted in is an assumption on the environment (plain Cosmos chains halt the same way), the
// branch is simply a dead end.
func haltViolation(chain string, r env.BlockResult) []V {
	h := r.Halt()
	if h == "" {
		return nil
	}
	first := h
	if i := strings.Index(first, "\n"); i >= 0 {
		first = first[:i]
	}
	if r.EngineErr != nil && r.Panic == "" && r.EndErr == nil {
		if strings.Contains(r.EngineErr.Error(), "would become empty") {
			return nil
		}
		prop := "C15"
		if chain != "provider" {
			prop = "C01"
		}
		return []V{{Property: prop, Key: "engine-rejects-updates:" + chain + ":" + classify(first), Msg: fmt.Sprintf("%s block %d: %s", chain, r.EndedHeight, h)}}
	}
	return []V{{Property: "C19", Key: "halt:" + chain + ":" + classify(first), Msg: fmt.Sprintf("%s block %d: %s", chain, r.EndedHeight, h)}}
}

// classify strips volatile parts (addresses, numbers) from an error message so that the same
// failure gives the same key.
func classify(s string) string {
	var b strings.Builder
	for _, f := range strings.Fields(s) {
		hasDigit := strings.ContainsAny(f, "0123456789")
		if hasDigit && len(f) > 3 {
			b.WriteString("# ")
			continue
		}
		b.WriteString(f)
		b.WriteByte(' ')
	}
	out := strings.TrimSpace(b.String())
	if len(out) > 160 {
		out = out[:160]
	}
	return out
}

func sortedKeys[T any](m map[string]T) []string {
	ks := make([]string, 0, len(m))
	for k := range m {
		ks = append(ks, k)
	}
	sort.Strings(ks)
	return ks
}

func vf(prop, key, format string, a ...any) V {
	return V{Property: prop, Key: key, Msg: fmt.Sprintf(format, a...)}
}

// shortJail makes downtime jailing last 5 s so that unjailing is reachable within a few blocks.
func shortJail(gen map[string]json.RawMessage, p *env.Provider) {
	cdc := p.PApp.AppCodec()
	var sg slashingtypes.GenesisState
	cdc.MustUnmarshalJSON(gen[slashingtypes.ModuleName], &sg)
	sg.Params.DowntimeJailDuration = 5 * time.Second
	gen[slashingtypes.ModuleName] = cdc.MustMarshalJSON(&sg)
}

var (
	debugMu   sync.Mutex
	debugSeen = map[string]bool{}
)

// debugOnce prints the first error seen under a label when MC_DEBUG is set.
func debugOnce(label string, err error) {
	if os.Getenv("MC_DEBUG") == "" || err == nil {
		return
	}
	debugMu.Lock()
	defer debugMu.Unlock()
	if debugSeen[label] {
		return
	}
	debugSeen[label] = true
	fmt.Fprintf(os.Stderr, "DEBUG %s: %v\n", label, err)
}

// mix folds monitor memory into a state hash.
func mix(h [32]byte, s string) [32]byte {
	return sha256.Sum256(append(h[:], []byte(s)...))
}

func edAddr(pk []byte) []byte { return cmted25519.PubKey(pk).Address() }

// c19Extra is filled in by later scenario files (fault enumeration, cross-chain scenarios).
var c19Extra = func(tier string) []Unit { return nil }

// abciVal is the validator field of a slash packet: address of the (consumer) consensus key + power.
func abciVal(v env.Val, power int64) abci.Validator {
	return abci.Validator{Address: v.ConsAddr(), Power: power}
}

// c12Extra is filled in by the slash scenario (slash packets carrying ids).
var c12Extra = func(tier string) []Unit { return nil }
