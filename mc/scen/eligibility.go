package scen

import (
	"bytes"
	"fmt"
	"sort"
	"time"

	"cosmossdk.io/math"

	sdk "github.com/cosmos/cosmos-sdk/types"
	stakingtypes "github.com/cosmos/cosmos-sdk/x/staking/types"

	"verif/mc/engine"
	"verif/mc/env"

	providertypes "github.com/cosmos/interchain-security/v7/x/ccv/provider/types"
)

// Eligibility is the C02 / C03(history) scenario: one provider, many consumers with different
// power-shaping settings living side by side, staking histories, opt-in/out, key assignment.
type Eligibility struct {
	M       int64
	MaxVals uint32
	Set     string // "A" or "B": which family of consumer configurations
	Epoch   int64
}

func (c Eligibility) Name() string { return "eligibility" }
func (c Eligibility) Params() map[string]any {
	return map[string]any{"M": c.M, "MaxValidators": c.MaxVals, "Set": c.Set, "Epoch": c.Epoch}
}

type elCons struct {
	id    string
	label string
	ps    providertypes.PowerShapingParameters
	late  bool
	optin []int // validators that opt in in the prefix
}

type elNode struct {
	S       env.State
	Created bool
}

type elWorker struct {
	cfg    Eligibility
	p      *env.Provider
	tab    Table
	root   *elNode
	stats  *engine.Stats
	rootVs []V
	cons   []elCons
	keyA   env.ConsKey
	keyB   env.ConsKey
}

func consAddrs(p *env.Provider, idx ...int) []string {
	var out []string
	for _, i := range idx {
		out = append(out, p.Vals[i].ConsAddr().String())
	}
	return out
}

func (c Eligibility) NewWorker(stats *engine.Stats) (engine.Worker, error) {
	// Three validators tie on power 2; token amounts are assigned against the operator-address
	// order so that "by tokens" and "by staking power index" disagree about who is first.
	probe := []env.Val{}
	for i := 0; i < 3; i++ {
		probe = append(probe, env.Val{Idx: i, Oper: env.NewAcct(fmt.Sprintf("val%d", i))})
	}
	order := []int{0, 1, 2}
	sort.Slice(order, func(a, b int) bool {
		return bytes.Compare(probe[order[a]].ValAddr(), probe[order[b]].ValAddr()) < 0
	})
	tokens := make([]int64, 4)
	for rank, i := range order { // lowest address gets the fewest tokens
		tokens[i] = 2*unit + int64(rank)*200_000
	}
	tokens[3] = 1 * unit
	p, err := env.NewProvider(env.ProviderCfg{
		SelfTokens: tokens, ExtraVals: 1, Users: 2, MaxValidators: c.MaxVals, MaxProvCons: c.M,
		BlocksPerEpoch: c.Epoch, MutateGenesis: shortJail,
	})
	if err != nil {
		return nil, err
	}
	w := &elWorker{cfg: c, p: p, stats: stats, keyA: env.NewConsKey("kA"), keyB: env.NewConsKey("kB")}
	minStakeExact := uint64(tokens[1])
	all := []int{0, 1, 2, 3}
	mk := func(label string, ps providertypes.PowerShapingParameters, late bool, optin []int) {
		w.cons = append(w.cons, elCons{id: fmt.Sprint(len(w.cons)), label: label, ps: ps, late: late, optin: optin})
	}
	type PS = providertypes.PowerShapingParameters
	if c.Set == "A" {
		mk("optin-plain", PS{}, false, all)
		mk("optin-inactive", PS{AllowInactiveVals: true}, false, all)
		mk("optin-allow0", PS{Allowlist: consAddrs(p, 0)}, false, all)
		mk("optin-deny0-inactive", PS{Denylist: consAddrs(p, 0), AllowInactiveVals: true}, false, all)
		mk("optin-minstake", PS{MinStake: minStakeExact}, false, all)
		mk("optin-minstake+1-inactive", PS{MinStake: minStakeExact + 1, AllowInactiveVals: true}, false, all)
		mk("top50", PS{Top_N: 50}, false, nil)
		mk("top100-inactive", PS{Top_N: 100, AllowInactiveVals: true}, false, nil)
		mk("top50-deny0", PS{Top_N: 50, Denylist: consAddrs(p, 0)}, false, []int{3})
		mk("optin-partial", PS{}, false, []int{1, 3})
		mk("late-optin-plain", PS{}, true, all)
		mk("late-top67-inactive", PS{Top_N: 67, AllowInactiveVals: true}, true, nil)
	} else {
		mk("optin-allow02-deny0", PS{Allowlist: consAddrs(p, 0, 2), Denylist: consAddrs(p, 0)}, false, all)
		mk("optin-allow02-inactive", PS{Allowlist: consAddrs(p, 0, 2), AllowInactiveVals: true}, false, all)
		mk("optin-minstake-inactive", PS{MinStake: minStakeExact, AllowInactiveVals: true}, false, all)
		mk("optin-minstake+1", PS{MinStake: minStakeExact + 1}, false, all)
		mk("top50-inactive", PS{Top_N: 50, AllowInactiveVals: true}, false, nil)
		mk("top100", PS{Top_N: 100}, false, nil)
		mk("top75-minstake", PS{Top_N: 75, MinStake: minStakeExact}, false, []int{3})
		mk("top50-allow02", PS{Top_N: 50, Allowlist: consAddrs(p, 0, 2)}, false, nil)
		mk("optin-powercap", PS{ValidatorsPowerCap: 34}, false, all)
		mk("optin-setcap2", PS{ValidatorSetCap: 2, AllowInactiveVals: true}, false, all)
		mk("late-optin-inactive-partial", PS{AllowInactiveVals: true}, true, []int{2, 3})
		mk("late-top50-deny0", PS{Top_N: 50, Denylist: consAddrs(p, 0)}, true, nil)
	}

	// prefix: create, configure, opt in; early consumers launch at the first block boundary,
	// late ones 12 s later (third block), i.e. after the explored history has changed staking.
	st := p.Root.Branch()
	user := p.Users[0].Addr.String()
	for _, cn := range w.cons {
		owner := user
		if cn.ps.Top_N > 0 {
			owner = p.GovAddr
		}
		spawn := st.Time()
		if cn.late {
			spawn = st.Time().Add(12 * time.Second)
		}
		chain := "chain-" + cn.id
		init := env.ConsumerInit{Spawn: spawn}.Params(chain)
		var ps0 *providertypes.PowerShapingParameters
		if cn.ps.Top_N == 0 {
			x := cn.ps
			ps0 = &x
		}
		if r := st.Deliver(env.MsgCreateConsumer(owner, chain, init, ps0)); r.Err != nil {
			return nil, fmt.Errorf("create consumer %s: %w", cn.label, r.Err)
		}
		if cn.ps.Top_N > 0 {
			x := cn.ps
			if r := st.Deliver(&providertypes.MsgUpdateConsumer{Owner: owner, ConsumerId: cn.id, PowerShapingParameters: &x}); r.Err != nil {
				return nil, fmt.Errorf("update consumer %s: %w", cn.label, r.Err)
			}
		}
		for _, vi := range cn.optin {
			if r := st.Deliver(env.MsgOptIn(p.Vals[vi], cn.id, nil)); r.Err != nil {
				return nil, fmt.Errorf("optin %s v%d: %w", cn.label, vi, r.Err)
			}
		}
	}
	w.root = &elNode{S: st}
	n, vs := w.block(w.root)
	w.rootVs = vs
	if n == nil {
		return nil, fmt.Errorf("prefix block failed: %v", vs)
	}
	w.root = n.(*elNode)
	w.build()
	return w, nil
}

func (w *elWorker) RootViolations() []V            { return w.rootVs }
func (w *elWorker) Root() engine.Node              { return w.root }
func (w *elWorker) Enabled(n engine.Node) []string { return w.tab.Names() }
func (w *elWorker) Hash(n engine.Node) [32]byte {
	return n.(*elNode).S.HashStores("provider", "staking", "slashing")
}
func (w *elWorker) Apply(n engine.Node, ev string) (engine.Node, []V) { return w.tab.Apply(n, ev) }

// tx adds a message event; check (optional) judges acceptance against the pre-state.
func (w *elWorker) tx(name string, mk func(x *elNode) sdk.Msg, judge func(pre *elNode, post *elNode, err error) []V) {
	w.tab.Add(name, func(n engine.Node) (engine.Node, []V) {
		x := n.(*elNode)
		msg := mk(x)
		if msg == nil {
			return nil, nil
		}
		c := &elNode{S: x.S.Branch(), Created: x.Created}
		before := w.optedIn(c.S.Ctx)
		r := c.S.Deliver(msg)
		var vs []V
		if judge != nil {
			vs = judge(x, c, r.Err)
		}
		if r.Err != nil {
			w.stats.Count("tx-rejected:" + name)
			debugOnce("eligibility:"+name, r.Err)
			return nil, vs
		}
		// opt-in provenance: only MsgOptIn / MsgOptOut change opt-in records, and only their own
		vs = append(vs, w.checkOptInDelta(before, w.optedIn(c.S.Ctx), msg)...)
		if _, ok := msg.(*stakingtypes.MsgCreateValidator); ok {
			c.Created = true
		}
		return c, vs
	})
}

func (w *elWorker) build() {
	p := w.p
	w.tab.Add("block", func(n engine.Node) (engine.Node, []V) { return w.block(n) })
	for i := 0; i < 4; i++ {
		v := p.Vals[i]
		w.tx(fmt.Sprintf("delegate(v%d,+1)", i), func(*elNode) sdk.Msg { return env.MsgDelegate(p.Delegator, v, unit) }, nil)
	}
	for i := 0; i < 4; i++ {
		v := p.Vals[i]
		w.tx(fmt.Sprintf("undelegate(v%d,-1)", i), func(*elNode) sdk.Msg { return env.MsgUndelegate(v.Oper, v, unit) }, nil)
	}
	w.tx("delegate(v3,+0.7)", func(*elNode) sdk.Msg { return env.MsgDelegate(p.Delegator, p.Vals[3], 700_000) }, nil)
	w.tab.Add("jail(v0)", func(n engine.Node) (engine.Node, []V) {
		x := n.(*elNode)
		c := &elNode{S: x.S.Branch(), Created: x.Created}
		if err := c.S.JailDowntime(p, p.Vals[0]); err != nil {
			return nil, nil
		}
		return c, nil
	})
	w.tx("unjail(v0)", func(*elNode) sdk.Msg { return env.MsgUnjail(p.Vals[0]) }, nil)
	w.tx("create(v4,2)", func(x *elNode) sdk.Msg {
		if x.Created {
			return nil
		}
		return env.MsgCreateValidator(p.Vals[4], p.Vals[4].Key, 2*unit)
	}, nil)
	// opt-in / opt-out on: first opt-in consumer ("0"), the first Top-N consumer, the partial one
	topID := ""
	for _, cn := range w.cons {
		if cn.ps.Top_N > 0 && !cn.late && topID == "" {
			topID = cn.id
		}
	}
	for _, t := range []struct {
		v   int
		cid string
	}{{1, "0"}, {3, topID}, {0, topID}, {1, topID}} {
		t := t
		w.tx(fmt.Sprintf("optout(v%d,c%s)", t.v, t.cid), func(*elNode) sdk.Msg { return env.MsgOptOut(p.Vals[t.v], t.cid) }, w.judgeOptOut(t.v, t.cid))
	}
	for _, nn := range []uint32{50, 95} {
		nn := nn
		w.tx(fmt.Sprintf("gov:update(c%s,N=%d)", topID, nn), func(x *elNode) sdk.Msg {
			ps, err := p.K.GetConsumerPowerShapingParameters(x.S.Ctx, topID)
			if err != nil || ps.Top_N == nn || ps.Top_N == 0 {
				return nil
			}
			ps.Top_N = nn
			return &providertypes.MsgUpdateConsumer{Owner: p.GovAddr, ConsumerId: topID, PowerShapingParameters: &ps}
		}, func(pre, post *elNode, err error) []V {
			if err != nil {
				return nil
			}
			// the threshold validators are held to is re-determined at once for the new N. In the middle of a
			// block "active validators" and "their power" are only well defined if staking has not moved since
			// the last EndBlock (the code mixes the current power index with last powers, and the next epoch
			// settles it either way): judge only then.
			sv, e := w.view(post.S.Ctx)
			if e != nil {
				return nil
			}
			if !w.settled(post.S.Ctx) {
				w.stats.Count("topn-changed-mid-block-unsettled(dont-care)")
				return nil
			}
			want := refMinPowerTopN(sv.activePowers, nn)
			got, found := p.K.GetMinimumPowerInTopN(post.S.Ctx, topID)
			w.stats.Count("topn-changed")
			if !found || got != want {
				return []V{vf("C03", "threshold-after-topn-change", "consumer %s: Top-N changed to %d; stored threshold %d (found=%v), reference %d over active powers %v", topID, nn, got, found, want, sv.activePowers)}
			}
			return nil
		})
	}
	capID := ""
	for _, cn := range w.cons {
		if cn.ps.ValidatorSetCap > 0 {
			capID = cn.id
		}
	}
	if capID != "" {
		// single entries, a two-element list, and a list of the same length naming one validator twice
		// (lists are validated entry by entry, duplicates are legal)
		for _, vis := range [][]int{{3}, {1}, {3, 1}, {1, 1}} {
			vis := vis
			label := ""
			for i, vi := range vis {
				if i > 0 {
					label += ","
				}
				label += fmt.Sprintf("v%d", vi)
			}
			w.tx(fmt.Sprintf("update(c%s,prio=[%s])", capID, label), func(x *elNode) sdk.Msg {
				ps, err := p.K.GetConsumerPowerShapingParameters(x.S.Ctx, capID)
				want := consAddrs(p, vis...)
				if err != nil || fmt.Sprint(ps.Prioritylist) == fmt.Sprint(want) {
					return nil
				}
				ps.Prioritylist = want
				return &providertypes.MsgUpdateConsumer{Owner: p.Users[0].Addr.String(), ConsumerId: capID, PowerShapingParameters: &ps}
			}, nil)
		}
	}
	w.tx("optin(v1,c0)", func(*elNode) sdk.Msg { return env.MsgOptIn(p.Vals[1], "0", nil) }, nil)
	w.tx("optin(v4,c0)", func(x *elNode) sdk.Msg {
		if !x.Created {
			return nil
		}
		return env.MsgOptIn(p.Vals[4], "0", nil)
	}, nil)
	w.tx("assign(v1,c0,kA)", func(*elNode) sdk.Msg { return env.MsgAssignKey(p.Vals[1], "0", w.keyA) }, nil)
	w.tx("assign(v1,c0,kB)", func(*elNode) sdk.Msg { return env.MsgAssignKey(p.Vals[1], "0", w.keyB) }, nil)
	w.tx("update(c0,clear lists)", func(x *elNode) sdk.Msg {
		ps, err := p.K.GetConsumerPowerShapingParameters(x.S.Ctx, "0")
		if err != nil || len(ps.Denylist)+len(ps.Allowlist) == 0 {
			return nil
		}
		ps.Denylist, ps.Allowlist = nil, nil
		return &providertypes.MsgUpdateConsumer{Owner: p.Users[0].Addr.String(), ConsumerId: "0", PowerShapingParameters: &ps}
	}, nil)
	w.tx("update(c0,allow v0)", func(x *elNode) sdk.Msg {
		ps, err := p.K.GetConsumerPowerShapingParameters(x.S.Ctx, "0")
		if err != nil || len(ps.Allowlist) > 0 {
			return nil
		}
		ps.Allowlist = consAddrs(p, 0)
		return &providertypes.MsgUpdateConsumer{Owner: p.Users[0].Addr.String(), ConsumerId: "0", PowerShapingParameters: &ps}
	}, nil)
	w.tx("update(c0,deny v2)", func(x *elNode) sdk.Msg {
		ps, err := p.K.GetConsumerPowerShapingParameters(x.S.Ctx, "0")
		if err != nil || len(ps.Denylist) > 0 && ps.Denylist[len(ps.Denylist)-1] == p.Vals[2].ConsAddr().String() {
			return nil
		}
		ps.Denylist = append(append([]string{}, ps.Denylist...), p.Vals[2].ConsAddr().String())
		return &providertypes.MsgUpdateConsumer{Owner: p.Users[0].Addr.String(), ConsumerId: "0", PowerShapingParameters: &ps}
	}, nil)
}

func (w *elWorker) optedIn(ctx sdk.Context) map[string]bool {
	out := map[string]bool{}
	for _, cn := range w.cons {
		for _, a := range w.p.K.GetAllOptedIn(ctx, cn.id) {
			out[cn.id+"/"+a.String()] = true
		}
	}
	return out
}

func (w *elWorker) checkOptInDelta(before, after map[string]bool, msg sdk.Msg) []V {
	want := map[string]bool{}
	for k := range before {
		want[k] = true
	}
	switch m := msg.(type) {
	case *providertypes.MsgOptIn:
		want[m.ConsumerId+"/"+w.paddrOfOper(m.ProviderAddr)] = true
	case *providertypes.MsgOptOut:
		delete(want, m.ConsumerId+"/"+w.paddrOfOper(m.ProviderAddr))
	}
	if fmt.Sprint(sortedKeys(want)) != fmt.Sprint(sortedKeys(after)) {
		return []V{vf("C03", "optin-provenance:tx", "opt-in records after %T: %v, expected %v", msg, sortedKeys(after), sortedKeys(want))}
	}
	return nil
}

func (w *elWorker) paddrOfOper(oper string) string {
	for _, v := range w.p.Vals {
		if v.ValAddr().String() == oper {
			return pas(v.ConsAddr())
		}
	}
	return "?"
}

// judgeOptOut: on a launched Top-N consumer an opt-out must be rejected iff the validator's last
// power is at or above the stored threshold; on a launched opt-in consumer it is accepted.
func (w *elWorker) judgeOptOut(vi int, cid string) func(pre, post *elNode, err error) []V {
	return func(pre, post *elNode, err error) []V {
		p := w.p
		ctx := pre.S.Ctx
		if p.K.GetConsumerPhase(ctx, cid) != providertypes.CONSUMER_PHASE_LAUNCHED {
			return nil
		}
		ps, e := p.K.GetConsumerPowerShapingParameters(ctx, cid)
		if e != nil {
			return nil
		}
		val, e := p.PApp.StakingKeeper.GetValidator(ctx, p.Vals[vi].ValAddr())
		if e != nil {
			return nil // validator gone: don't-care
		}
		_ = val
		if ps.Top_N == 0 {
			if err != nil {
				return []V{vf("C03", "optout-rejected-on-optin-chain", "opt-out of v%d from opt-in consumer %s rejected: %v", vi, cid, err)}
			}
			return nil
		}
		power, _ := p.PApp.StakingKeeper.GetLastValidatorPower(ctx, p.Vals[vi].ValAddr())
		m, found := p.K.GetMinimumPowerInTopN(ctx, cid)
		if !found {
			return nil
		}
		mustReject := power >= m
		w.stats.Count(fmt.Sprintf("optout-topn:mustReject=%v", mustReject))
		if mustReject && err == nil {
			return []V{vf("C03", "optout-accepted-above-threshold", "v%d (power %d) opted out of Top-N consumer %s although threshold is %d", vi, power, cid, m)}
		}
		if !mustReject && err != nil {
			return []V{vf("C03", "optout-rejected-below-threshold", "v%d (power %d) could not opt out of Top-N consumer %s, threshold %d: %v", vi, power, cid, m, err)}
		}
		return nil
	}
}

type stakeView struct {
	vals   []stakingtypes.Validator
	active map[string]bool // provider cons addr (string) -> in provider consensus set
	byAddr map[string]stakingtypes.Validator
	power  map[string]int64 // last validator power
	// active validators' powers (for the Top-N threshold)
	activePowers []int64
}

func (w *elWorker) view(ctx sdk.Context) (*stakeView, error) {
	p := w.p
	all, err := p.PApp.StakingKeeper.GetAllValidators(ctx)
	if err != nil {
		return nil, err
	}
	sv := &stakeView{vals: all, active: map[string]bool{}, byAddr: map[string]stakingtypes.Validator{}, power: map[string]int64{}}
	m := p.K.GetMaxProviderConsensusValidators(ctx)
	top, err := refTopM(p, ctx, m)
	if err != nil {
		return nil, err
	}
	topOper := map[string]bool{}
	for _, t := range top {
		topOper[t.oper.String()] = true
	}
	for _, v := range all {
		ca, err := v.GetConsAddr()
		if err != nil {
			return nil, err
		}
		pa := pas(ca)
		sv.byAddr[pa] = v
		oper, _ := sdk.ValAddressFromBech32(v.OperatorAddress)
		pw, err := p.PApp.StakingKeeper.GetLastValidatorPower(ctx, oper)
		if err != nil {
			pw = 0
		}
		sv.power[pa] = pw
		if topOper[v.OperatorAddress] {
			sv.active[pa] = true
			sv.activePowers = append(sv.activePowers, pw)
		}
	}
	return sv, nil
}

// settled: every validator's current tokens agree with its last recorded power and bonded status.
func (w *elWorker) settled(ctx sdk.Context) bool {
	all, err := w.p.PApp.StakingKeeper.GetAllValidators(ctx)
	if err != nil {
		return false
	}
	for _, v := range all {
		oper, _ := sdk.ValAddressFromBech32(v.OperatorAddress)
		lp, err := w.p.PApp.StakingKeeper.GetLastValidatorPower(ctx, oper)
		if err != nil {
			lp = 0
		}
		cur := int64(0)
		if v.Status == stakingtypes.Bonded && !v.Jailed {
			cur = v.Tokens.Quo(math.NewInt(unit)).Int64()
		}
		if cur != lp {
			return false
		}
	}
	return true
}

// refMinPowerTopN: smallest m such that active validators with power >= m hold >= N% of the
// active power — i.e. walk powers downwards until the running sum reaches N%; exact integers.
func refMinPowerTopN(powers []int64, n uint32) int64 {
	ps := append([]int64{}, powers...)
	sort.Slice(ps, func(i, j int) bool { return ps[i] > ps[j] })
	var total int64
	for _, p := range ps {
		total += p
	}
	var sum int64
	for _, p := range ps {
		sum += p
		if 100*sum >= int64(n)*total {
			return p
		}
	}
	return 0
}

func has(list []string, a string) bool {
	for _, x := range list {
		if x == a {
			return true
		}
	}
	return false
}

// checkConsumer recomputes must/may membership of one consumer's validator set.
func (w *elWorker) checkConsumer(ctx sdk.Context, cn elCons, sv *stakeView, when string) []V {
	p := w.p
	var vs []V
	ps, err := p.K.GetConsumerPowerShapingParameters(ctx, cn.id)
	if err != nil {
		return []V{vf("C02", "no-power-shaping", "%v", err)}
	}
	actual, err := p.K.GetConsumerValSet(ctx, cn.id)
	if err != nil {
		return []V{vf("C02", "valset-unreadable", "%v", err)}
	}
	act := map[string]providertypes.ConsensusValidator{}
	for _, a := range actual {
		pa := pas(a.ProviderConsAddr)
		if _, dup := act[pa]; dup {
			vs = append(vs, vf("C02", "duplicate-member", "consumer %s (%s): validator %s twice", cn.id, cn.label, pa))
		}
		act[pa] = a
	}
	var m int64
	if ps.Top_N > 0 {
		m = refMinPowerTopN(sv.activePowers, ps.Top_N)
		stored, found := p.K.GetMinimumPowerInTopN(ctx, cn.id)
		if !found || stored != m {
			vs = append(vs, vf("C03", "threshold", "consumer %s (%s) N=%d: stored threshold %d (found=%v), reference %d over active powers %v (%s)", cn.id, cn.label, ps.Top_N, stored, found, m, sv.activePowers, when))
		}
		w.stats.Count(fmt.Sprintf("topn-threshold:%d", m))
	}
	capped := ps.ValidatorSetCap > 0 && ps.Top_N == 0
	mustPower := map[string]int64{}
	for pa, v := range sv.byAddr {
		base := v.Status == stakingtypes.Bonded && !v.Jailed
		opted := p.K.IsOptedIn(ctx, cn.id, providertypes.NewProviderConsAddress(mustCons(v)))
		lists := (len(ps.Allowlist) == 0 || has(ps.Allowlist, sdk.ConsAddress(mustCons(v)).String())) &&
			!has(ps.Denylist, sdk.ConsAddress(mustCons(v)).String())
		stake := ps.MinStake == 0 || v.Tokens.GTE(sdkInt(ps.MinStake))
		activeOK := ps.AllowInactiveVals || sv.active[pa]
		topReq := ps.Top_N > 0 && sv.active[pa] && sv.power[pa] >= m
		topMay := ps.Top_N > 0 && sv.power[pa] >= m // open corner: inactive validator above the threshold
		must := base && (opted || topReq) && lists && stake && activeOK
		may := base && (opted || topReq || topMay) && lists && stake && activeOK
		if topReq && !opted {
			vs = append(vs, vf("C03", "topn-not-opted-in", "consumer %s (%s): active validator %s with power %d >= threshold %d has no opt-in record (%s)", cn.id, cn.label, short(pa), sv.power[pa], m, when))
		}
		if must {
			mustPower[pa] = sv.power[pa]
		}
		a, in := act[pa]
		switch {
		case in && !may:
			vs = append(vs, vf("C02", fmt.Sprintf("ineligible-member:bonded=%v,opted=%v,lists=%v,stake=%v,active=%v", base, opted || topReq, lists, stake, activeOK),
				"consumer %s (%s): validator %s is in the set but not eligible: bonded&unjailed=%v opted/required=%v lists=%v minstake=%v active-or-allowed=%v (%s; M=%d)", cn.id, cn.label, short(pa), base, opted || topReq, lists, stake, activeOK, when, p.K.GetMaxProviderConsensusValidators(ctx)))
		case !in && must && !capped:
			vs = append(vs, vf("C02", "eligible-missing", "consumer %s (%s): validator %s meets every condition but is not in the set (%s; M=%d)", cn.id, cn.label, short(pa), when, p.K.GetMaxProviderConsensusValidators(ctx)))
		}
		if in {
			w.stats.Count("member")
			if ps.ValidatorsPowerCap == 0 && a.Power != sv.power[pa] {
				vs = append(vs, vf("C02", "power-mismatch", "consumer %s (%s): validator %s has consumer power %d, provider power %d", cn.id, cn.label, short(pa), a.Power, sv.power[pa]))
			}
			wantKey, found := p.K.GetValidatorConsumerPubKey(ctx, cn.id, providertypes.NewProviderConsAddress(mustCons(v)))
			if !found {
				wantKey, _ = v.CmtConsPublicKey()
			} else {
				w.stats.Count("member-with-assigned-key")
			}
			if env.PubKeyID(a.PublicKey) != env.PubKeyID(&wantKey) {
				vs = append(vs, vf("C02", "key-mismatch", "consumer %s (%s): validator %s carries key %s, expected %s (assigned=%v)", cn.id, cn.label, short(pa), short(env.PubKeyID(a.PublicKey)), short(env.PubKeyID(&wantKey)), found))
			}
		} else if base && !activeOK && (opted || topReq) && lists && stake {
			w.stats.Count("excluded-only-because-inactive")
		} else if base && !lists {
			w.stats.Count("excluded-by-lists")
		} else if base && !stake {
			w.stats.Count("excluded-by-minstake")
		} else if !base {
			w.stats.Count("excluded-not-bonded")
		}
	}
	// C04 in situ: validator-set cap and power cap as composed by ComputeNextValidators
	if capped {
		var in, out []providertypes.ConsensusValidator
		isPrio := map[string]bool{}
		for pa, pw := range mustPower {
			ca := mustCons(sv.byAddr[pa])
			in = append(in, providertypes.ConsensusValidator{ProviderConsAddr: ca, Power: pw})
			if has(ps.Prioritylist, sdk.ConsAddress(ca).String()) {
				isPrio[string(ca)] = true
			}
		}
		for _, a := range actual {
			out = append(out, providertypes.ConsensusValidator{ProviderConsAddr: a.ProviderConsAddr, Power: sv.power[pas(a.ProviderConsAddr)]})
		}
		if v := judgeSetCap(in, out, int(ps.ValidatorSetCap), isPrio, w.stats); v != nil {
			vs = append(vs, *v)
		}
	}
	if ps.ValidatorsPowerCap > 0 && len(actual) > 0 {
		var in []providertypes.ConsensusValidator
		var powers []int64
		for _, a := range actual {
			pw := sv.power[pas(a.ProviderConsAddr)]
			in = append(in, providertypes.ConsensusValidator{ProviderConsAddr: a.ProviderConsAddr, Power: pw})
			powers = append(powers, pw)
		}
		if v := judgePowerCap(powers, in, actual, ps.ValidatorsPowerCap, w.stats); v != nil {
			vs = append(vs, *v)
		}
	}
	for pa := range act {
		if _, ok := sv.byAddr[pa]; !ok {
			vs = append(vs, vf("C02", "unknown-member", "consumer %s: member %s is not a staking validator", cn.id, short(pa)))
		}
	}
	return vs
}

func short(s string) string {
	if len(s) > 10 {
		return s[len(s)-8:]
	}
	return s
}

// pas is the canonical string form of a provider consensus address.
func pas(b []byte) string {
	a := providertypes.NewProviderConsAddress(b)
	return a.String()
}

func sdkInt(u uint64) math.Int { return math.NewIntFromUint64(u) }

func mustCons(v stakingtypes.Validator) []byte {
	ca, err := v.GetConsAddr()
	if err != nil {
		panic(err)
	}
	return ca
}

func (w *elWorker) launched(ctx sdk.Context) map[string]bool {
	out := map[string]bool{}
	for _, cn := range w.cons {
		if w.p.K.GetConsumerPhase(ctx, cn.id) == providertypes.CONSUMER_PHASE_LAUNCHED {
			out[cn.id] = true
		}
	}
	return out
}

func (w *elWorker) block(n engine.Node) (engine.Node, []V) {
	x := n.(*elNode)
	c := &elNode{S: x.S.Branch(), Created: x.Created}
	var vs []V
	p := w.p
	preOpt := w.optedIn(c.S.Ctx)
	preSets := map[string][]env.KV{}
	epoch := c.S.Height()%w.cfg.Epoch == 0
	if !epoch {
		for _, cn := range w.cons {
			preSets[cn.id] = env.DumpPrefix(c.S.Ctx, p.PApp, "provider", p.K.GetConsumerChainConsensusValidatorsKey(c.S.Ctx, cn.id))
		}
	}
	var launchedBefore map[string]bool
	var optMid map[string]bool
	r := c.S.NextBlock(5*time.Second, func(s *env.State, r *env.BlockResult) {
		ctx := s.Ctx
		launchedBefore = w.launched(ctx)
		optMid = w.optedIn(ctx)
		sv, err := w.view(ctx)
		if err != nil {
			vs = append(vs, vf("HARNESS", "view", "%v", err))
			return
		}
		if epoch {
			want := map[string]bool{}
			for k := range preOpt {
				want[k] = true
			}
			for _, cn := range w.cons {
				if !launchedBefore[cn.id] {
					continue
				}
				vs = append(vs, w.checkConsumer(ctx, cn, sv, "epoch")...)
				ps, _ := p.K.GetConsumerPowerShapingParameters(ctx, cn.id)
				if ps.Top_N > 0 {
					m := refMinPowerTopN(sv.activePowers, ps.Top_N)
					for pa := range sv.active {
						if sv.power[pa] >= m {
							want[cn.id+"/"+pa] = true
						}
					}
				}
			}
			if got := w.optedIn(ctx); fmt.Sprint(sortedKeys(got)) != fmt.Sprint(sortedKeys(want)) {
				vs = append(vs, vf("C03", "optin-provenance:epoch", "opt-in records after epoch: %v, expected %v", sortedKeys(got), sortedKeys(want)))
			}
			w.stats.Count("epoch-block")
		} else {
			for _, cn := range w.cons {
				now := env.DumpPrefix(ctx, p.PApp, "provider", p.K.GetConsumerChainConsensusValidatorsKey(ctx, cn.id))
				if len(env.DiffKV(preSets[cn.id], now)) > 0 {
					vs = append(vs, vf("C02", "set-changed-outside-epoch", "consumer %s validator set changed in a non-epoch block", cn.id))
				}
			}
			w.stats.Count("non-epoch-block")
		}
	})
	vs = append(vs, haltViolation("provider", r)...)
	if r.Halt() != "" {
		return nil, vs
	}
	// launch path: consumers launched by this BeginBlock
	after := w.launched(c.S.Ctx)
	var sv *stakeView
	midOpt := optMid
	for _, cn := range w.cons {
		if after[cn.id] && !launchedBefore[cn.id] {
			if sv == nil {
				var err error
				if sv, err = w.view(c.S.Ctx); err != nil {
					return nil, append(vs, vf("HARNESS", "view", "%v", err))
				}
			}
			vs = append(vs, w.checkConsumer(c.S.Ctx, cn, sv, "launch")...)
			w.stats.Count("launch-checked")
			if ps, _ := p.K.GetConsumerPowerShapingParameters(c.S.Ctx, cn.id); ps.Top_N > 0 {
				m := refMinPowerTopN(sv.activePowers, ps.Top_N)
				for pa := range sv.active {
					if sv.power[pa] >= m {
						midOpt[cn.id+"/"+pa] = true
					}
				}
			}
		}
	}
	if got := w.optedIn(c.S.Ctx); midOpt != nil && fmt.Sprint(sortedKeys(got)) != fmt.Sprint(sortedKeys(midOpt)) {
		vs = append(vs, vf("C03", "optin-provenance:launch", "opt-in records after begin-block: %v, expected %v", sortedKeys(got), sortedKeys(midOpt)))
	}
	return c, vs
}

func (w *elWorker) ProviderForTier2() *env.Provider { return w.p }
