package scen

import (
	"encoding/json"
	"time"

	"verif/mc/engine"
)

func init() {
	registerScenario("isolation", func(bz json.RawMessage) (engine.Scenario, error) {
		var c Isolation
		if err := json.Unmarshal(bz, &c); err != nil {
			return nil, err
		}
		return c, nil
	})
	register("C13", func(tier string) CheckSpec {
		depth, budget := 3, 240*time.Second
		if tier == "thorough" {
			depth, budget = 5, 20*time.Minute
		}
		var us []Unit
		for _, x := range []string{"1", "10", "0"} {
			us = append(us, Search{Sc: Isolation{X: x}, Depth: depth})
		}
		return CheckSpec{Level: "model_checking", Rule: searchRule + "; every node carries two worlds (with / without the operations aimed at consumer X) and the oracle is differential: every provider-store entry not owned by X must be byte-identical in both", Assumptions: append([]string{
			"reward allocations and slash acks of the fixture are seeded through keeper setters (the cross-chain paths that create them are judged by C16 / C08)",
			"ownership of a store entry is decided generically: key is prefix|id, or starts with prefix|len8(id)|id, or its value is the id, or (time queues) its value lists the id",
		}, commonAssumptions...), Budget: budget, Units: us, MustSee: []string{"xop-accepted", "x-diff"}}
	})
}
