package scen

import (
	"fmt"
	"strconv"
	"time"

	"cosmossdk.io/math"

	sdk "github.com/cosmos/cosmos-sdk/types"
	stakingtypes "github.com/cosmos/cosmos-sdk/x/staking/types"

	"verif/mc/engine"
	"verif/mc/env"

	providertypes "github.com/cosmos/interchain-security/v7/x/ccv/provider/types"
	ccv "github.com/cosmos/interchain-security/v7/x/ccv/types"
)

// Infraction is the C20 scenario (provider only).
type Infraction struct {
	Variant string // "base" | "bulk" | "staggered" (base + two pending changes with different due times)
}

func (c Infraction) Name() string           { return "infraction" }
func (c Infraction) Params() map[string]any { return map[string]any{"Variant": c.Variant} }

type infNode struct{ S env.State }

type infWorker struct {
	cfg    Infraction
	p      *env.Provider
	tab    Table
	root   *infNode
	stats  *engine.Stats
	rootVs []V
	nCons  int
}

type infCons struct {
	phase   providertypes.ConsumerPhase
	cur     *providertypes.InfractionParameters
	queued  *providertypes.InfractionParameters
	sched   []time.Time
	deleted bool
}

func (w *infWorker) summary(ctx sdk.Context) map[string]infCons {
	k := w.p.K
	out := map[string]infCons{}
	next, _ := k.GetConsumerId(ctx)
	for i := uint64(0); i < next; i++ {
		id := strconv.FormatUint(i, 10)
		c := infCons{phase: k.GetConsumerPhase(ctx, id)}
		if p, err := k.GetInfractionParameters(ctx, id); err == nil {
			pp := p
			c.cur = &pp
		}
		if k.HasQueuedInfractionParameters(ctx, id) {
			if p, err := k.GetQueuedInfractionParameters(ctx, id); err == nil {
				pp := p
				c.queued = &pp
			}
		}
		out[id] = c
	}
	pfx := providertypes.InfractionScheduledTimeToConsumerIdsKeyPrefix()
	for _, kv := range env.DumpPrefix(ctx, w.p.PApp, "provider", []byte{pfx}) {
		ts, err := providertypes.ParseTime(pfx, kv.K)
		if err != nil {
			continue
		}
		var ids providertypes.ConsumerIds
		if ids.Unmarshal(kv.V) != nil {
			continue
		}
		for _, id := range ids.Ids {
			c := out[id]
			c.sched = append(c.sched, ts)
			out[id] = c
		}
	}
	return out
}

func sjEq(a, b *providertypes.SlashJailParameters) bool {
	if a == nil || b == nil {
		return a == b
	}
	return a.SlashFraction.Equal(b.SlashFraction) && a.JailDuration == b.JailDuration && a.Tombstone == b.Tombstone
}

func ipEq(a, b *providertypes.InfractionParameters) bool {
	if a == nil || b == nil {
		return a == b
	}
	return sjEq(a.DoubleSign, b.DoubleSign) && sjEq(a.Downtime, b.Downtime)
}

func ipStr(a *providertypes.InfractionParameters) string {
	if a == nil {
		return "<none>"
	}
	f := func(s *providertypes.SlashJailParameters) string {
		if s == nil {
			return "nil"
		}
		return fmt.Sprintf("%s/%s/%v", s.SlashFraction, s.JailDuration, s.Tombstone)
	}
	return "ds=" + f(a.DoubleSign) + " dt=" + f(a.Downtime)
}

var (
	ipP1 = providertypes.InfractionParameters{
		DoubleSign: &providertypes.SlashJailParameters{SlashFraction: math.LegacyMustNewDecFromStr("0.1"), JailDuration: 100 * time.Second},
		Downtime:   &providertypes.SlashJailParameters{SlashFraction: math.LegacyMustNewDecFromStr("0.02"), JailDuration: 50 * time.Second},
	}
	ipP2 = providertypes.InfractionParameters{
		DoubleSign: &providertypes.SlashJailParameters{SlashFraction: math.LegacyMustNewDecFromStr("0.2"), JailDuration: 200 * time.Second, Tombstone: true},
		Downtime:   &providertypes.SlashJailParameters{SlashFraction: math.LegacyMustNewDecFromStr("0.03"), JailDuration: 60 * time.Second},
	}
)

func (c Infraction) NewWorker(stats *engine.Stats) (engine.Worker, error) {
	p, err := env.NewProvider(env.ProviderCfg{SelfTokens: []int64{30 * unit, 20 * unit, 10 * unit}, Users: 2})
	if err != nil {
		return nil, err
	}
	w := &infWorker{cfg: c, p: p, stats: stats}
	st := p.Root.Branch()
	A := p.Users[0].Addr.String()
	nLaunched := 1
	if c.Variant == "bulk" {
		nLaunched = 203
	}
	for i := 0; i < nLaunched; i++ {
		if r := st.Deliver(env.MsgCreateConsumer(A, "inf", env.ConsumerInit{Spawn: st.Time()}.Params("inf"), nil)); r.Err != nil {
			return nil, r.Err
		}
		if r := st.Deliver(env.MsgOptIn(p.Vals[0], strconv.Itoa(i), nil)); r.Err != nil {
			return nil, r.Err
		}
	}
	if r := st.Deliver(env.MsgOptIn(p.Vals[1], "0", nil)); r.Err != nil {
		return nil, r.Err
	}
	if r := st.Deliver(env.MsgOptIn(p.Vals[2], "0", nil)); r.Err != nil {
		return nil, r.Err
	}
	// R: registered, never scheduled
	if r := st.Deliver(env.MsgCreateConsumer(A, "inf", env.ConsumerInit{}.Params("inf"), nil)); r.Err != nil {
		return nil, r.Err
	}
	if c.Variant != "bulk" {
		// a second launched consumer ("2"): pending changes of several consumers with different due times
		if r := st.Deliver(env.MsgCreateConsumer(A, "inf", env.ConsumerInit{Spawn: st.Time()}.Params("inf"), nil)); r.Err != nil {
			return nil, r.Err
		}
		if r := st.Deliver(env.MsgOptIn(p.Vals[0], "2", nil)); r.Err != nil {
			return nil, r.Err
		}
	}
	w.nCons = nLaunched + 1
	w.root = &infNode{S: st}
	blocks := 1
	if c.Variant == "bulk" {
		blocks = 2 // 200 launches per block
	}
	for i := 0; i < blocks; i++ {
		n, vs := w.block(w.root, 5*time.Second)
		w.rootVs = append(w.rootVs, vs...)
		if n == nil {
			return nil, fmt.Errorf("prefix block: %v", vs)
		}
		w.root = n.(*infNode)
	}
	if c.Variant == "bulk" {
		// every launched consumer requests P1 in the same block: all due at the same time
		for i := 0; i < nLaunched; i++ {
			x := ipP1
			if r := w.root.S.Deliver(&providertypes.MsgUpdateConsumer{Owner: A, ConsumerId: strconv.Itoa(i), InfractionParameters: &x}); r.Err != nil {
				return nil, r.Err
			}
		}
		w.tab.Add("block(5s)", func(n engine.Node) (engine.Node, []V) { return w.block(n, 5*time.Second) })
		w.tab.Add("block(U)", func(n engine.Node) (engine.Node, []V) { return w.block(n, p.Cfg.Unbonding) })
		return w, nil
	}
	w.build()
	if c.Variant == "staggered" {
		// two launched consumers already hold pending changes that are due at different times
		for _, ev := range []string{"update(c0,P1)", "block(5s)", "update(c2,P2)"} {
			n, vs := w.tab.Apply(w.root, ev)
			w.rootVs = append(w.rootVs, vs...)
			if n == nil {
				return nil, fmt.Errorf("staggered prefix: %s failed: %v", ev, vs)
			}
			w.root = n.(*infNode)
		}
	}
	return w, nil
}

func (w *infWorker) RootViolations() []V            { return w.rootVs }
func (w *infWorker) Root() engine.Node              { return w.root }
func (w *infWorker) Enabled(n engine.Node) []string { return w.tab.Names() }
func (w *infWorker) Apply(n engine.Node, ev string) (engine.Node, []V) {
	return w.tab.Apply(n, ev)
}
func (w *infWorker) Hash(n engine.Node) [32]byte {
	return n.(*infNode).S.HashStores("provider", "staking", "slashing")
}

func (w *infWorker) invariants(sum map[string]infCons, when string) []V {
	var vs []V
	for id, c := range sum {
		if (c.queued != nil) != (len(c.sched) > 0) || len(c.sched) > 1 {
			vs = append(vs, vf("C20", "schedule-vs-pending", "%s: consumer %s has pending=%v but is scheduled %d times (%v)", when, id, c.queued != nil, len(c.sched), fmtTimes(c.sched)))
		}
	}
	return vs
}

func (w *infWorker) build() {
	p := w.p
	A := p.Users[0].Addr.String()
	U := p.Cfg.Unbonding
	for _, dt := range []time.Duration{5 * time.Second, U - 5*time.Second, U} {
		dt := dt
		w.tab.Add(fmt.Sprintf("block(%s)", dt), func(n engine.Node) (engine.Node, []V) { return w.block(n, dt) })
	}
	type req struct {
		name string
		mk   func(cur *providertypes.InfractionParameters) *providertypes.InfractionParameters
	}
	reqs := []req{
		{"P1", func(*providertypes.InfractionParameters) *providertypes.InfractionParameters { x := ipP1; return &x }},
		{"P2", func(*providertypes.InfractionParameters) *providertypes.InfractionParameters { x := ipP2; return &x }},
		{"ds-only", func(*providertypes.InfractionParameters) *providertypes.InfractionParameters {
			return &providertypes.InfractionParameters{DoubleSign: ipP2.DoubleSign}
		}},
		{"dt-only", func(*providertypes.InfractionParameters) *providertypes.InfractionParameters {
			return &providertypes.InfractionParameters{Downtime: ipP2.Downtime}
		}},
		{"current", func(cur *providertypes.InfractionParameters) *providertypes.InfractionParameters {
			if cur == nil {
				return nil
			}
			x := *cur
			return &x
		}},
	}
	for _, cid := range []string{"0", "1", "2"} {
		for _, rq := range reqs {
			if cid == "2" && (rq.name == "ds-only" || rq.name == "dt-only") {
				continue
			}
			cid, rq := cid, rq
			w.tab.Add(fmt.Sprintf("update(c%s,%s)", cid, rq.name), func(n engine.Node) (engine.Node, []V) {
				x := n.(*infNode)
				pre := w.summary(x.S.Ctx)
				pc := pre[cid]
				msgP := rq.mk(pc.cur)
				if msgP == nil {
					return nil, nil
				}
				c := &infNode{S: x.S.Branch()}
				r := c.S.Deliver(&providertypes.MsgUpdateConsumer{Owner: A, ConsumerId: cid, InfractionParameters: msgP})
				if r.Err != nil {
					debugOnce("infraction:update:"+cid, r.Err)
					w.stats.Count("update-rejected")
					return nil, nil
				}
				post := w.summary(c.S.Ctx)
				qc := post[cid]
				var vs []V
				want := providertypes.InfractionParameters{DoubleSign: msgP.DoubleSign, Downtime: msgP.Downtime}
				if want.DoubleSign == nil {
					want.DoubleSign = pc.cur.DoubleSign
				}
				if want.Downtime == nil {
					want.Downtime = pc.cur.Downtime
				}
				prelaunch := pc.phase == providertypes.CONSUMER_PHASE_REGISTERED || pc.phase == providertypes.CONSUMER_PHASE_INITIALIZED
				if prelaunch {
					w.stats.Count("update:prelaunch")
					if !ipEq(qc.cur, &want) || qc.queued != nil {
						vs = append(vs, vf("C20", "prelaunch-not-immediate", "update(%s) on pre-launch consumer %s: in force %s, pending %s; expected %s in force at once", rq.name, cid, ipStr(qc.cur), ipStr(qc.queued), ipStr(&want)))
					}
				} else {
					if !ipEq(qc.cur, pc.cur) {
						vs = append(vs, vf("C20", "launched-changed-at-once", "update(%s) on launched consumer %s changed the parameters in force at once: %s -> %s", rq.name, cid, ipStr(pc.cur), ipStr(qc.cur)))
					}
					if ipEq(&want, pc.cur) {
						w.stats.Count("update:cancel")
						if qc.queued != nil {
							vs = append(vs, vf("C20", "equal-request-not-cancelling", "update(%s) equals the parameters in force on consumer %s but a change is pending: %s", rq.name, cid, ipStr(qc.queued)))
						}
					} else {
						if pc.queued != nil {
							w.stats.Count("update:replace-pending")
						} else {
							w.stats.Count("update:new-pending")
						}
						due := x.S.Time().Add(U)
						if !ipEq(qc.queued, &want) {
							vs = append(vs, vf("C20", "wrong-pending", "update(%s) on launched consumer %s: pending %s, expected %s", rq.name, cid, ipStr(qc.queued), ipStr(&want)))
						}
						if len(qc.sched) != 1 || !qc.sched[0].Equal(due) {
							vs = append(vs, vf("C20", "wrong-due-time", "update(%s) on launched consumer %s at %s: scheduled %v, expected once at %s", rq.name, cid, x.S.Time().Format("15:04:05"), fmtTimes(qc.sched), due.Format("15:04:05")))
						}
					}
				}
				for oid, oc := range pre {
					if oid != cid && (!ipEq(oc.cur, post[oid].cur) || !ipEq(oc.queued, post[oid].queued)) {
						vs = append(vs, vf("C20", "other-consumer-changed", "update on consumer %s changed infraction parameters of consumer %s", cid, oid))
					}
				}
				vs = append(vs, w.invariants(post, "update")...)
				return c, vs
			})
		}
	}
	w.tab.Add("stop(c0)", func(n engine.Node) (engine.Node, []V) {
		c := &infNode{S: n.(*infNode).S.Branch()}
		if r := c.S.Deliver(env.MsgRemoveConsumer(A, "0")); r.Err != nil {
			return nil, nil
		}
		return c, nil
	})
	for _, vi := range []int{1, 2} {
		vi := vi
		w.tab.Add(fmt.Sprintf("downtime(v%d,c0)", vi), func(n engine.Node) (engine.Node, []V) { return w.downtime(n, vi) })
	}
}

// downtime: the provider handles a (validated) downtime slash packet for validator vi on consumer 0;
// the fraction and the jail time applied must be the downtime parameters in force now.
func (w *infWorker) downtime(n engine.Node, vi int) (engine.Node, []V) {
	x := n.(*infNode)
	p := w.p
	ctx := x.S.Ctx
	ph := p.K.GetConsumerPhase(ctx, "0")
	if ph != providertypes.CONSUMER_PHASE_LAUNCHED && ph != providertypes.CONSUMER_PHASE_STOPPED {
		return nil, nil
	}
	v := p.Vals[vi]
	val, err := p.PApp.StakingKeeper.GetValidator(ctx, v.ValAddr())
	if err != nil || val.IsJailed() || !val.IsBonded() {
		return nil, nil
	}
	cur, err := p.K.GetInfractionParameters(ctx, "0")
	if err != nil {
		return nil, []V{vf("C20", "no-params-in-force", "%v", err)}
	}
	c := &infNode{S: x.S.Branch()}
	vsc := p.K.GetValidatorSetUpdateId(ctx) - 1
	power, _ := p.PApp.StakingKeeper.GetLastValidatorPower(ctx, v.ValAddr())
	data := ccv.SlashPacketData{Validator: abciVal(v, power), ValsetUpdateId: vsc, Infraction: stakingtypes.Infraction_INFRACTION_DOWNTIME}
	_, pan := c.S.RunTx(func(cctx sdk.Context) bool {
		p.K.HandleSlashPacket(cctx, "0", data)
		return true
	})
	if pan != "" {
		return nil, []V{vf("C19", "panic:HandleSlashPacket", "%s", pan)}
	}
	after, err := p.PApp.StakingKeeper.GetValidator(c.S.Ctx, v.ValAddr())
	if err != nil {
		return nil, nil
	}
	var vs []V
	if !after.IsJailed() {
		return nil, nil // not handled (e.g. unknown vsc id): judged by C08, not here
	}
	wantBurn := cur.Downtime.SlashFraction.MulInt(sdk.TokensFromConsensusPower(power, sdk.DefaultPowerReduction)).TruncateInt()
	gotBurn := val.Tokens.Sub(after.Tokens)
	if !gotBurn.Equal(wantBurn) {
		vs = append(vs, vf("C20", "downtime-fraction-not-in-force", "downtime on consumer 0: %s tokens slashed from v%d (power %d), parameters in force say fraction %s = %s", gotBurn, vi, power, cur.Downtime.SlashFraction, wantBurn))
	}
	si, err := p.PApp.SlashingKeeper.GetValidatorSigningInfo(c.S.Ctx, v.ConsAddr())
	if err == nil {
		want := x.S.Time().Add(cur.Downtime.JailDuration)
		if !si.JailedUntil.Equal(want) {
			vs = append(vs, vf("C20", "downtime-jail-not-in-force", "downtime on consumer 0: v%d jailed until %s, parameters in force (jail %s) say %s", vi, si.JailedUntil.Format("15:04:05"), cur.Downtime.JailDuration, want.Format("15:04:05")))
		}
	}
	w.stats.Count("downtime-handled:fraction=" + cur.Downtime.SlashFraction.String())
	return c, vs
}

func (w *infWorker) block(n engine.Node, dt time.Duration) (engine.Node, []V) {
	x := n.(*infNode)
	c := &infNode{S: x.S.Branch()}
	pre := w.summary(c.S.Ctx)
	r := c.S.NextBlock(dt, nil)
	vs := haltViolation("provider", r)
	if r.Halt() != "" {
		return nil, vs
	}
	now := c.S.Time()
	post := w.summary(c.S.Ctx)
	due := 0
	for _, pc := range pre {
		if pc.queued != nil && len(pc.sched) == 1 && !pc.sched[0].After(now) {
			due++
		}
	}
	applied := 0
	for id, pc := range pre {
		qc := post[id]
		deletedNow := qc.phase == providertypes.CONSUMER_PHASE_DELETED && pc.phase != providertypes.CONSUMER_PHASE_DELETED
		switch {
		case pc.queued == nil:
			if !ipEq(pc.cur, qc.cur) || qc.queued != nil {
				vs = append(vs, vf("C20", "changed-without-pending", "block: consumer %s had no pending change but parameters went %s -> %s (pending now %s)", id, ipStr(pc.cur), ipStr(qc.cur), ipStr(qc.queued)))
			}
		case deletedNow:
			w.stats.Count("deleted-with-pending")
			if qc.queued != nil || len(qc.sched) != 0 {
				vs = append(vs, vf("C20", "pending-survives-deletion", "consumer %s was deleted but its pending change (%s) / schedule entry %v remain", id, ipStr(qc.queued), fmtTimes(qc.sched)))
			}
		case len(pc.sched) == 1 && !pc.sched[0].After(now):
			if ipEq(qc.cur, pc.queued) && qc.queued == nil {
				applied++
				w.stats.Count("pending-applied")
			} else if due <= 200 {
				vs = append(vs, vf("C20", "due-change-not-applied", "consumer %s: change due %s, block time %s: in force %s pending %s, expected %s in force", id, pc.sched[0].Format("15:04:05"), now.Format("15:04:05"), ipStr(qc.cur), ipStr(qc.queued), ipStr(pc.queued)))
			} else if !(ipEq(qc.cur, pc.cur) && ipEq(qc.queued, pc.queued)) {
				vs = append(vs, vf("C20", "due-change-mangled", "consumer %s: more than 200 due; neither applied nor kept intact", id))
			}
		default:
			w.stats.Count("pending-not-due")
			if !ipEq(qc.cur, pc.cur) || !ipEq(qc.queued, pc.queued) {
				vs = append(vs, vf("C20", "applied-before-due", "consumer %s: change due %v, block time %s, but in force went %s -> %s", id, fmtTimes(pc.sched), now.Format("15:04:05"), ipStr(pc.cur), ipStr(qc.cur)))
			}
		}
	}
	if due > 200 {
		w.stats.Count("more-than-200-due")
		if applied != 200 {
			vs = append(vs, vf("C20", "batch-limit", "%d changes due, %d applied in one block (limit 200)", due, applied))
		}
	}
	vs = append(vs, w.invariants(post, "block")...)
	return c, vs
}

func (w *infWorker) ProviderForTier2() *env.Provider { return w.p }
