package scen

import (
	"encoding/json"
	"time"

	"verif/mc/engine"
)

func init() {
	registerScenario("lifecycle", func(bz json.RawMessage) (engine.Scenario, error) {
		var c Lifecycle
		if err := json.Unmarshal(bz, &c); err != nil {
			return nil, err
		}
		return c, nil
	})
	register("C10", func(tier string) CheckSpec {
		depth, budget := 4, 240*time.Second
		if tier == "thorough" {
			depth, budget = 6, 20*time.Minute
		}
		us := []Unit{Search{Sc: Lifecycle{Variant: "base"}, Depth: depth}}
		for _, l := range []string{"205", "150+100", "199+2+3"} {
			us = append(us, Search{Sc: Lifecycle{Variant: "bulk:" + l}, Depth: 3})
		}
		// the phase machine also on cross-chain histories (timeouts, error acknowledgements, deletion, late relay)
		us = append(us, Search{Sc: Stop{Variant: "base"}, Depth: depth + 1})
		return CheckSpec{Level: "model_checking", Rule: searchRule, Assumptions: commonAssumptions, Budget: budget, Units: us,
			MustSee: []string{"launch:success-expected", "launch:failure-expected", "more-than-200-due", "not-due",
				"edge:CONSUMER_PHASE_REGISTERED->CONSUMER_PHASE_INITIALIZED", "edge:CONSUMER_PHASE_INITIALIZED->CONSUMER_PHASE_REGISTERED",
				"edge:CONSUMER_PHASE_INITIALIZED->CONSUMER_PHASE_LAUNCHED", "edge:CONSUMER_PHASE_LAUNCHED->CONSUMER_PHASE_STOPPED", "edge:CONSUMER_PHASE_STOPPED->CONSUMER_PHASE_DELETED"}}
	})
}
