package scen

import (
	"bytes"
	"fmt"
	"time"

	"cosmossdk.io/math"

	sdk "github.com/cosmos/cosmos-sdk/types"
	stakingtypes "github.com/cosmos/cosmos-sdk/x/staking/types"
	clienttypes "github.com/cosmos/ibc-go/v10/modules/core/02-client/types"
	ibctm "github.com/cosmos/ibc-go/v10/modules/light-clients/07-tendermint"
	ibctesting "github.com/cosmos/ibc-go/v10/testing"

	cmted25519 "github.com/cometbft/cometbft/crypto/ed25519"
	"github.com/cometbft/cometbft/crypto/tmhash"
	cmtproto "github.com/cometbft/cometbft/proto/tendermint/types"
	cmtversion "github.com/cometbft/cometbft/proto/tendermint/version"
	cmttypes "github.com/cometbft/cometbft/types"

	"verif/mc/engine"
	"verif/mc/env"

	providertypes "github.com/cosmos/interchain-security/v7/x/ccv/provider/types"
)

// Evidence is the C07 scenario (provider only): double-voting evidence and light-client-attack
// misbehaviour, valid and mutated in every field, for validators in every key state, with stake that
// is unbonding / redelegating, repeated and interleaved, around the key-pruning deadline.
type Evidence struct{ Variant string }

func (c Evidence) Name() string           { return "evidence" }
func (c Evidence) Params() map[string]any { return map[string]any{"Variant": c.Variant} }

type evNode struct {
	S env.State
	// key model of v1 on consumer 0: current key and replaced keys with the time of replacement
	V1Key    string
	Replaced map[string]int64
}

func (n *evNode) child() *evNode {
	r := map[string]int64{}
	for k, v := range n.Replaced {
		r[k] = v
	}
	return &evNode{S: n.S.Branch(), V1Key: n.V1Key, Replaced: r}
}

type evWorker struct {
	p           *env.Provider
	tab         Table
	root        *evNode
	stats       *engine.Stats
	rootVs      []V
	keys        map[string]env.ConsKey
	launch      time.Time
	tReplace    time.Time
	launchPower map[string]int64 // launch-time consumer key name -> power in consumer 0's initial set
}

func cmtPV(k env.ConsKey) cmttypes.PrivValidator {
	return cmttypes.NewMockPVWithParams(cmted25519.PrivKey(k.Priv.Key), false, false)
}

func cmtVal(k env.ConsKey, power int64) *cmttypes.Validator {
	return cmttypes.NewValidator(cmted25519.PubKey(k.Pub.Bytes()), power)
}

func blockID(seed string) cmttypes.BlockID {
	return cmttypes.BlockID{Hash: tmhash.Sum([]byte("block-" + seed)), PartSetHeader: cmttypes.PartSetHeader{Total: 1, Hash: tmhash.Sum([]byte("parts-" + seed))}}
}

type voteSpec struct {
	key     env.ConsKey // whose address the vote carries
	signer  env.ConsKey // who signs it
	chainID string
	height  int64
	round   int32
	typ     cmtproto.SignedMsgType
	bid     cmttypes.BlockID
	flipSig bool
}

func mkVote(v voteSpec, t time.Time) *cmttypes.Vote {
	vote := &cmttypes.Vote{Type: v.typ, Height: v.height, Round: v.round, BlockID: v.bid, Timestamp: t,
		ValidatorAddress: cmted25519.PubKey(v.key.Pub.Bytes()).Address(), ValidatorIndex: 0}
	pv := vote.ToProto()
	sig, err := v.signer.Priv.Sign(cmttypes.VoteSignBytes(v.chainID, pv))
	if err != nil {
		panic(err)
	}
	if v.flipSig {
		sig[3] ^= 0x40
	}
	vote.Signature = sig
	return vote
}

// dvMsg builds MsgSubmitConsumerDoubleVoting; mut names the single mutation applied.
func (w *evWorker) dvMsg(consumerID, chainID string, key env.ConsKey, mut string, now time.Time) *providertypes.MsgSubmitConsumerDoubleVoting {
	a := voteSpec{key: key, signer: key, chainID: chainID, height: 20, round: 0, typ: cmtproto.PrecommitType, bid: blockID("a")}
	b := a
	b.bid = blockID("b")
	hdrKey := key
	switch mut {
	case "other-chain-id":
		a.chainID, b.chainID = "some-other-chain", "some-other-chain"
	case "bad-sig-A":
		a.flipSig = true
	case "bad-sig-B":
		b.flipSig = true
	case "same-block-id":
		b.bid = a.bid
	case "height-differs":
		b.height = 21
	case "round-differs":
		b.round = 1
	case "type-differs":
		b.typ = cmtproto.PrevoteType
	case "voteB-other-validator":
		b.key, b.signer = w.keys["stranger"], w.keys["stranger"]
	case "signed-by-other-key":
		a.signer, b.signer = w.keys["stranger"], w.keys["stranger"]
	case "header-lacks-validator":
		hdrKey = w.keys["stranger"]
	case "below-min-height":
		a.height, b.height = 9, 9
	}
	va, vb := mkVote(a, now), mkVote(b, now)
	// CometBFT orders the two votes by block-id key
	if bytes.Compare([]byte(va.BlockID.Key()), []byte(vb.BlockID.Key())) > 0 {
		va, vb = vb, va
	}
	ev := &cmttypes.DuplicateVoteEvidence{VoteA: va, VoteB: vb, TotalVotingPower: 10, ValidatorPower: 1, Timestamp: now}
	vs := cmttypes.NewValidatorSet([]*cmttypes.Validator{cmtVal(hdrKey, 1)})
	vsp, _ := vs.ToProto()
	h := cmttypes.Header{ChainID: chainID, Height: a.height, Time: now, ValidatorsHash: vs.Hash()}
	return &providertypes.MsgSubmitConsumerDoubleVoting{
		Submitter:             w.p.Users[0].Addr.String(),
		DuplicateVoteEvidence: ev.ToProto(),
		InfractionBlockHeader: &ibctm.Header{SignedHeader: &cmtproto.SignedHeader{Header: h.ToProto(), Commit: &cmtproto.Commit{}}, ValidatorSet: vsp},
		ConsumerId:            consumerID,
	}
}

var dvMutations = []string{"other-chain-id", "bad-sig-A", "bad-sig-B", "same-block-id", "height-differs", "round-differs", "type-differs",
	"voteB-other-validator", "signed-by-other-key", "header-lacks-validator", "below-min-height"}

func (c Evidence) NewWorker(stats *engine.Stats) (engine.Worker, error) {
	p, err := env.NewProvider(env.ProviderCfg{SelfTokens: []int64{10 * unit, 10 * unit, 10 * unit}, DelegTokens: []int64{0, 6 * unit, 0}, Users: 1})
	if err != nil {
		return nil, err
	}
	w := &evWorker{p: p, stats: stats, keys: map[string]env.ConsKey{}}
	for _, n := range []string{"k1", "k2", "kz", "stranger"} {
		w.keys[n] = env.NewConsKey("ev-" + n)
	}
	w.keys["pk0"], w.keys["pk1"], w.keys["pk2"] = p.Vals[0].Key, p.Vals[1].Key, p.Vals[2].Key
	st := p.Root.Branch()
	A := p.Users[0].Addr.String()
	must := func(m sdk.Msg) error {
		if r := st.Deliver(m); r.Err != nil {
			return fmt.Errorf("%T: %w", m, r.Err)
		}
		return nil
	}
	ten := uint64(10)
	mk := func(chain string, spawn time.Time, ds providertypes.SlashJailParameters) error {
		ci := env.ConsumerInit{Spawn: spawn}.Params(chain)
		ci.InitialHeight = clienttypes.NewHeight(clienttypes.ParseChainID(chain), ten)
		m := env.MsgCreateConsumer(A, chain, ci, nil)
		m.InfractionParameters = &providertypes.InfractionParameters{DoubleSign: &ds}
		return must(m)
	}
	// c0: no tombstone, 10%; c1: same chain id, tombstone, 20%; c2: registered only (no client)
	if err := mk("cons-e", st.Time(), providertypes.SlashJailParameters{SlashFraction: math.LegacyMustNewDecFromStr("0.1"), JailDuration: 100 * time.Second}); err != nil {
		return nil, err
	}
	if err := mk("cons-e", st.Time(), providertypes.SlashJailParameters{SlashFraction: math.LegacyMustNewDecFromStr("0.2"), JailDuration: 200 * time.Second, Tombstone: true}); err != nil {
		return nil, err
	}
	if err := mk("cons-f", time.Time{}, providertypes.SlashJailParameters{SlashFraction: math.LegacyMustNewDecFromStr("0.3"), JailDuration: 300 * time.Second}); err != nil {
		return nil, err
	}
	for _, cid := range []string{"0", "1"} {
		for vi := range p.Vals {
			if err := must(env.MsgOptIn(p.Vals[vi], cid, nil)); err != nil {
				return nil, err
			}
		}
	}
	if err := must(env.MsgAssignKey(p.Vals[1], "0", w.keys["k1"])); err != nil {
		return nil, err
	}
	if err := must(env.MsgAssignKey(p.Vals[2], "0", w.keys["kz"])); err != nil {
		return nil, err
	}
	// stake layout of v1: an unbonding entry (2 units) and a redelegation to v2 (3 units)
	if err := must(env.MsgUndelegate(p.Delegator, p.Vals[1], 2*unit)); err != nil {
		return nil, err
	}
	if err := must(env.MsgRedelegate(p.Delegator, p.Vals[1], p.Vals[2], 3*unit)); err != nil {
		return nil, err
	}
	if r := st.NextBlock(5*time.Second, nil); r.Halt() != "" {
		return nil, fmt.Errorf("prefix block: %s", r.Halt())
	}
	w.launch = st.Time()
	// after launch v1 replaces k1 by k2 on consumer 0: k1 stays attributable for one unbonding period
	if err := must(env.MsgAssignKey(p.Vals[1], "0", w.keys["k2"])); err != nil {
		return nil, err
	}
	w.tReplace = st.Time()
	if r := st.NextBlock(5*time.Second, nil); r.Halt() != "" {
		return nil, fmt.Errorf("prefix block: %s", r.Halt())
	}
	for _, cid := range []string{"0", "1"} {
		if p.K.GetConsumerPhase(st.Ctx, cid) != providertypes.CONSUMER_PHASE_LAUNCHED {
			return nil, fmt.Errorf("fixture: consumer %s not launched", cid)
		}
	}
	// the provider's client for consumer 0 trusts the launch-time set: keys pk0, k1, kz with their powers
	w.launchPower = map[string]int64{}
	gen, _ := p.K.GetConsumerGenesis(st.Ctx, "0")
	for _, u := range gen.Provider.InitialValSet {
		for _, kn := range []string{"pk0", "k1", "kz"} {
			if env.PubKeyID(&u.PubKey) == w.keys[kn].ID() {
				w.launchPower[kn] = u.Power
			}
		}
	}
	if len(w.launchPower) != 3 {
		return nil, fmt.Errorf("fixture: launch-time set of consumer 0 is %v", gen.Provider.InitialValSet)
	}
	w.root = &evNode{S: st, V1Key: "k2", Replaced: map[string]int64{"k1": w.tReplace.UnixNano()}}
	w.build()
	return w, nil
}

func (w *evWorker) RootViolations() []V            { return w.rootVs }
func (w *evWorker) Root() engine.Node              { return w.root }
func (w *evWorker) Enabled(n engine.Node) []string { return w.tab.Names() }
func (w *evWorker) Apply(n engine.Node, ev string) (engine.Node, []V) {
	return w.tab.Apply(n, ev)
}
func (w *evWorker) Hash(n engine.Node) [32]byte {
	x := n.(*evNode)
	return mix(x.S.HashStores("provider", "staking", "slashing"), fmt.Sprint(x.V1Key, x.Replaced))
}

// owner: reference resolution of a consumer key on a consumer at a time (map model).
// returns validator index, or -1 (no validator), or -2 (don't-care: replaced key past its deadline)
func (w *evWorker) owner(x *evNode, cid, key string, now time.Time) int {
	switch key {
	case "pk0":
		return 0
	case "pk1":
		return 1 // never assigned to anyone: resolves to its owner as provider key
	case "pk2":
		return 2
	}
	if cid == "0" {
		if key == "kz" {
			return 2
		}
		if key == x.V1Key {
			return 1
		}
		if t, ok := x.Replaced[key]; ok {
			if now.Before(time.Unix(0, t).Add(w.p.Cfg.Unbonding)) {
				return 1
			}
			return -2
		}
	}
	return -1
}

type evSnap struct {
	tokens    math.Int
	jailed    bool
	tomb      bool
	until     time.Time
	status    stakingtypes.BondStatus
	ubd       math.Int
	ubdInit   math.Int // initial balance of the non-mature unbonding entries (what the SDK applies the fraction to)
	red       math.Int // balance of redelegation entries with this validator as source
	lastPower int64
	bz        []byte
}

func (w *evWorker) snap(ctx sdk.Context, vi int) evSnap {
	p := w.p
	s := evSnap{ubd: math.ZeroInt(), ubdInit: math.ZeroInt(), red: math.ZeroInt(), tokens: math.ZeroInt()}
	v, err := p.PApp.StakingKeeper.GetValidator(ctx, p.Vals[vi].ValAddr())
	if err != nil {
		return s
	}
	s.tokens, s.jailed, s.status = v.Tokens, v.Jailed, v.Status
	s.bz, _ = v.Marshal()
	s.lastPower, _ = p.PApp.StakingKeeper.GetLastValidatorPower(ctx, p.Vals[vi].ValAddr())
	if si, err := p.PApp.SlashingKeeper.GetValidatorSigningInfo(ctx, p.Vals[vi].ConsAddr()); err == nil {
		s.tomb, s.until = si.Tombstoned, si.JailedUntil
		b2, _ := si.Marshal()
		s.bz = append(s.bz, b2...)
	}
	if ubds, err := p.PApp.StakingKeeper.GetUnbondingDelegationsFromValidator(ctx, p.Vals[vi].ValAddr()); err == nil {
		for _, u := range ubds {
			for _, e := range u.Entries {
				if !e.IsMature(ctx.BlockTime()) { // the SDK does not slash entries that have completed
					s.ubd = s.ubd.Add(e.Balance)
					s.ubdInit = s.ubdInit.Add(e.InitialBalance)
				}
			}
		}
	}
	if reds, err := p.PApp.StakingKeeper.GetRedelegationsFromSrcValidator(ctx, p.Vals[vi].ValAddr()); err == nil {
		for _, r := range reds {
			for _, e := range r.Entries {
				if !e.IsMature(ctx.BlockTime()) {
					s.red = s.red.Add(e.InitialBalance)
				}
			}
		}
	}
	return s
}

func (w *evWorker) build() {
	p := w.p
	U := p.Cfg.Unbonding
	for _, dt := range []time.Duration{5 * time.Second, U - 15*time.Second, U} {
		dt := dt
		w.tab.Add(fmt.Sprintf("block(%s)", dt), func(n engine.Node) (engine.Node, []V) {
			c := n.(*evNode).child()
			r := c.S.NextBlock(dt, nil)
			vs := haltViolation("provider", r)
			if r.Halt() != "" {
				return nil, vs
			}
			return c, vs
		})
	}
	type sub struct{ cid, chain, key, mut string }
	var subs []sub
	for _, cid := range []string{"0", "1"} {
		for _, k := range []string{"pk0", "pk1", "k2", "k1", "kz", "stranger"} {
			subs = append(subs, sub{cid, "cons-e", k, ""})
		}
	}
	for _, m := range dvMutations {
		subs = append(subs, sub{"0", "cons-e", "k2", m})
	}
	subs = append(subs, sub{"9", "cons-e", "pk0", "unknown-consumer"}, sub{"2", "cons-f", "pk0", "consumer-without-client"})
	for _, s := range subs {
		s := s
		name := fmt.Sprintf("doublevote(c%s,%s", s.cid, s.key)
		if s.mut != "" {
			name += "," + s.mut
		}
		name += ")"
		w.tab.Add(name, func(n engine.Node) (engine.Node, []V) {
			return w.submitDV(n.(*evNode), name, s.cid, s.chain, s.key, s.mut)
		})
	}
	// v1 keeps rotating its key on consumer 0 (switching back to an old key is for C05 to judge; here the
	// model just follows what the provider accepted, so that evidence is attributed to the current key)
	for _, kn := range []string{"k1", "k2"} {
		kn := kn
		w.tab.Add("assign(v1,c0,"+kn+")", func(n engine.Node) (engine.Node, []V) {
			x := n.(*evNode)
			c := x.child()
			if r := c.S.Deliver(env.MsgAssignKey(p.Vals[1], "0", w.keys[kn])); r.Err != nil {
				return nil, nil
			}
			c.Replaced[x.V1Key] = x.S.Time().UnixNano()
			delete(c.Replaced, kn)
			c.V1Key = kn
			return c, nil
		})
	}
	// the owner stops consumer 0: until it is deleted one unbonding period later the provider keeps its
	// client, keys and parameters, so evidence is judged exactly as before; after the deletion the
	// statement leaves the outcome open (no client any more) and nothing is judged
	w.tab.Add("stop(c0)", func(n engine.Node) (engine.Node, []V) {
		c := n.(*evNode).child()
		if r := c.S.Deliver(env.MsgRemoveConsumer(p.Users[0].Addr.String(), "0")); r.Err != nil {
			return nil, nil
		}
		w.stats.Count("consumer-stopped")
		return c, nil
	})
	w.buildMisbehaviour()
}

// gone reports that the consumer the evidence is about has been deleted (don't-care from then on).
func (w *evWorker) gone(x *evNode, cid string) bool {
	if w.p.K.GetConsumerPhase(x.S.Ctx, cid) == providertypes.CONSUMER_PHASE_DELETED {
		w.stats.Count("evidence-for-deleted-consumer(dont-care)")
		return true
	}
	return false
}

func (w *evWorker) submitDV(x *evNode, name, cid, chain, key, mut string) (engine.Node, []V) {
	p := w.p
	if w.gone(x, cid) {
		return nil, nil
	}
	if p.K.GetConsumerPhase(x.S.Ctx, cid) == providertypes.CONSUMER_PHASE_STOPPED {
		w.stats.Count("dv:for-stopped-consumer")
	}
	now := x.S.Time()
	ctx := x.S.Ctx
	msg := w.dvMsg(cid, chain, w.keys[key], mut, now)
	var pre [3]evSnap
	for i := range pre {
		pre[i] = w.snap(ctx, i)
	}
	preDump := [][]env.KV{env.Dump(ctx, p.PApp, "provider"), env.Dump(ctx, p.PApp, "staking"), env.Dump(ctx, p.PApp, "slashing"), env.Dump(ctx, p.PApp, "bank")}
	c := x.child()
	r := c.S.Deliver(msg)
	accepted := r.Err == nil
	post := c.S.Ctx
	var vs []V
	vi := -1
	valid := mut == "" && (cid == "0" || cid == "1")
	if valid {
		vi = w.owner(x, cid, key, now)
	}
	if vi == -2 {
		w.stats.Count("dv:replaced-key-past-deadline(dont-care)")
		if !accepted {
			return nil, nil
		}
		return c, nil
	}
	punishable := valid && vi >= 0 && pre[vi].status != stakingtypes.Unbonded && !pre[vi].tomb
	w.stats.Count(fmt.Sprintf("dv:valid=%v,punishable=%v,accepted=%v", valid, punishable, accepted))
	if !punishable {
		if accepted {
			why := "the evidence is not valid for this consumer (" + mut + ")"
			if valid && vi < 0 {
				why = "the signing key belongs to no provider validator on this consumer"
			} else if valid {
				why = "the validator is unbonded or already tombstoned"
			}
			vs = append(vs, vf("C07", "invalid-evidence-accepted:"+mut, "%s was accepted although %s", name, why))
		}
		// nothing may change
		for i, st := range []string{"provider", "staking", "slashing", "bank"} {
			if d := env.DiffKV(preDump[i], env.Dump(post, p.PApp, st)); len(d) > 0 {
				vs = append(vs, vf("C07", "rejected-evidence-changed-state", "%s (accepted=%v) changed %d keys of the %s store", name, accepted, len(d), st))
			}
		}
		if accepted {
			return c, vs
		}
		return nil, vs
	}
	if !accepted {
		debugOnce("evidence:"+name, r.Err)
		return nil, []V{vf("C07", "valid-evidence-rejected", "%s is valid evidence against v%d (bonded/unbonding, not tombstoned) but was rejected: %v", name, vi, r.Err)}
	}
	ip, _ := p.K.GetInfractionParameters(ctx, cid)
	ds := ip.DoubleSign
	after := w.snap(post, vi)
	// exactly the signer: jailed, jailed-until, tombstone per the consumer's settings
	if !after.jailed {
		vs = append(vs, vf("C07", "signer-not-jailed", "%s: v%d not jailed", name, vi))
	}
	if want := now.Add(ds.JailDuration); !after.until.Equal(want) {
		vs = append(vs, vf("C07", "jail-duration", "%s: v%d jailed until %s, the consumer's double-sign jail duration says %s", name, vi, after.until.Format("15:04:05"), want.Format("15:04:05")))
	}
	if after.tomb != (ds.Tombstone || pre[vi].tomb) {
		vs = append(vs, vf("C07", "tombstone", "%s: v%d tombstoned=%v, the consumer's setting is %v", name, vi, after.tomb, ds.Tombstone))
	}
	// amounts: the consumer's double-sign fraction of bonded tokens (last power), of every unbonding
	// entry and of every redelegation (taken from the destination validator)
	frac := ds.SlashFraction
	wantTok := frac.MulInt(sdk.TokensFromConsensusPower(pre[vi].lastPower, sdk.DefaultPowerReduction)).TruncateInt()
	wantUbd := math.MinInt(frac.MulInt(pre[vi].ubdInit).TruncateInt(), pre[vi].ubd)
	wantRed := frac.MulInt(pre[vi].red).TruncateInt()
	if got := pre[vi].tokens.Sub(after.tokens); !got.Equal(wantTok) && !(vi == 2 && false) {
		// v2 may additionally lose what is slashed from a redelegation *to* it when another validator is punished — not here (vi is the signer)
		vs = append(vs, vf("C07", "slash-amount-bonded", "%s: v%d lost %s bonded tokens, double-sign fraction %s of its power %d is %s", name, vi, got, frac, pre[vi].lastPower, wantTok))
	}
	if got := pre[vi].ubd.Sub(after.ubd); !got.Equal(wantUbd) {
		vs = append(vs, vf("C07", "slash-amount-unbonding", "%s: unbonding entries of v%d lost %s, expected %s (fraction %s of %s)", name, vi, got, wantUbd, frac, pre[vi].ubd))
	}
	// everybody else untouched, except the destination of a slashed redelegation
	for i := range pre {
		if i == vi {
			continue
		}
		a := w.snap(post, i)
		if bytes.Equal(a.bz, pre[i].bz) {
			continue
		}
		// (the SDK takes the fraction of the redelegated shares' current worth, at most fraction x initial balance)
		if lost := pre[i].tokens.Sub(a.tokens); wantRed.IsPositive() && i == 2 && a.jailed == pre[i].jailed && a.tomb == pre[i].tomb && lost.IsPositive() && lost.LTE(wantRed) {
			w.stats.Count("dv:redelegation-slashed")
			continue
		}
		vs = append(vs, vf("C07", "other-validator-affected", "%s punishes v%d but v%d changed too (tokens %s -> %s, jailed %v -> %v)", name, vi, i, pre[i].tokens, a.tokens, pre[i].jailed, a.jailed))
	}
	if wantUbd.IsPositive() {
		w.stats.Count("dv:unbonding-slashed")
	}
	if pre[vi].jailed {
		w.stats.Count("dv:repeat-without-tombstone")
	}
	return c, vs
}

// ---------------------------------------------------------------------------------------------
// light-client-attack misbehaviour

type mbSpec struct {
	name     string
	signers2 []string // keys signing header 2 (header 1 is signed by all three)
	mut      string
	vals2    []string // validator set of header 2 if it differs from the launch set (lunatic attack)
}

func (w *evWorker) header(chainID string, height int64, t time.Time, appHash string, round int32, vals []string, signers []string, trusted clienttypes.Height, corrupt string, trustedVals ...string) *ibctm.Header {
	mkSet := func(ks []string) *cmttypes.ValidatorSet {
		var vs []*cmttypes.Validator
		for _, k := range ks {
			vs = append(vs, cmtVal(w.keys[k], w.launchPower[k]))
		}
		return cmttypes.NewValidatorSet(vs)
	}
	vset := mkSet(vals)
	h := cmttypes.Header{
		Version: cmtversion.Consensus{Block: 11, App: 2}, ChainID: chainID, Height: height, Time: t,
		LastBlockID:    blockID("last"),
		LastCommitHash: tmhash.Sum([]byte("lc")), DataHash: tmhash.Sum([]byte("d")),
		ValidatorsHash: vset.Hash(), NextValidatorsHash: vset.Hash(), ConsensusHash: tmhash.Sum([]byte("c")),
		AppHash: tmhash.Sum([]byte(appHash)), LastResultsHash: tmhash.Sum([]byte("r")), EvidenceHash: tmhash.Sum([]byte("e")),
		ProposerAddress: vset.Proposer.Address,
	}
	sm := map[string]cmttypes.PrivValidator{}
	for _, k := range signers {
		pv := cmtPV(w.keys[k])
		pk, _ := pv.GetPubKey()
		sm[pk.Address().String()] = pv
	}
	// validators that do not sign still need an entry for CommitHeader; give absentees a nil-vote by
	// signing with a throw-away key is not possible, so build the commit by hand
	sh, err := commitHeader(h, vset, sm, round)
	if err != nil {
		panic(err)
	}
	if corrupt != "" {
		addr := cmted25519.PubKey(w.keys[corrupt].Pub.Bytes()).Address()
		for i := range sh.Commit.Signatures {
			if bytes.Equal(sh.Commit.Signatures[i].ValidatorAddress, addr) && len(sh.Commit.Signatures[i].Signature) > 4 {
				sh.Commit.Signatures[i].Signature[4] ^= 0x20
			}
		}
	}
	vp, _ := vset.ToProto()
	vp.TotalVotingPower = vset.TotalVotingPower()
	tp := vp
	if len(trustedVals) > 0 {
		ts := mkSet(trustedVals)
		tp, _ = ts.ToProto()
		tp.TotalVotingPower = ts.TotalVotingPower()
	}
	return &ibctm.Header{SignedHeader: sh, ValidatorSet: vp, TrustedHeight: trusted, TrustedValidators: tp}
}

// commitHeader signs h with the given subset of the validator set (absent validators get an
// absent commit signature), the way CometBFT would.
func commitHeader(h cmttypes.Header, vset *cmttypes.ValidatorSet, signers map[string]cmttypes.PrivValidator, round int32) (*cmtproto.SignedHeader, error) {
	bid := cmttypes.BlockID{Hash: h.Hash(), PartSetHeader: cmttypes.PartSetHeader{Total: 3, Hash: tmhash.Sum([]byte("psh"))}}
	sigs := make([]cmttypes.CommitSig, len(vset.Validators))
	for i, v := range vset.Validators {
		pv, ok := signers[v.Address.String()]
		if !ok {
			sigs[i] = cmttypes.NewCommitSigAbsent()
			continue
		}
		vote := &cmtproto.Vote{Type: cmtproto.PrecommitType, Height: h.Height, Round: round, BlockID: bid.ToProto(), Timestamp: h.Time, ValidatorAddress: v.Address, ValidatorIndex: int32(i)}
		if err := pv.SignVote(h.ChainID, vote); err != nil {
			return nil, err
		}
		sigs[i] = cmttypes.CommitSig{BlockIDFlag: cmttypes.BlockIDFlagCommit, ValidatorAddress: v.Address, Timestamp: h.Time, Signature: vote.Signature}
	}
	commit := &cmttypes.Commit{Height: h.Height, Round: round, BlockID: bid, Signatures: sigs}
	return &cmtproto.SignedHeader{Header: h.ToProto(), Commit: commit.ToProto()}, nil
}

var _ = ibctesting.ChainIDPrefix

// consumer 0's validators are v0 (pk0), v1 (k2 now, k1 at launch), v2 (kz). The provider's client for
// consumer 0 trusts the launch-time validator set, so the conflicting headers are signed with the
// launch-time keys pk0, k1, kz.
func (w *evWorker) buildMisbehaviour() {
	p := w.p
	launchKeys := []string{"pk0", "k1", "kz"}
	specs := []mbSpec{
		{name: "equivocation(all)", signers2: launchKeys},
		{name: "equivocation(pk0,kz)", signers2: []string{"pk0", "kz"}},
		{name: "equivocation(k1,kz)", signers2: []string{"k1", "kz"}},
		// header 2 carries its own validator set {k1,kz} (a lunatic attack): positions in its commit do not
		// line up with positions in header 1's set; the culprits are still exactly those who signed both
		{name: "lunatic(k1,kz)", signers2: []string{"k1", "kz"}, vals2: []string{"k1", "kz"}},
		{name: "lunatic(pk0,kz)", signers2: []string{"pk0", "kz"}, vals2: []string{"pk0", "kz"}},
		{name: "lunatic(pk0,k1)", signers2: []string{"pk0", "k1"}, vals2: []string{"pk0", "k1"}},
		{name: "other-client", signers2: launchKeys, mut: "other-client"},
		{name: "other-chain-id", signers2: launchKeys, mut: "other-chain-id"},
		{name: "heights-differ", signers2: launchKeys, mut: "heights-differ"},
		{name: "below-min-height", signers2: launchKeys, mut: "below-min-height"},
		{name: "amnesia", signers2: launchKeys, mut: "amnesia"},
		{name: "bad-sig(kz)", signers2: launchKeys, mut: "bad-sig"},
		{name: "identical-headers", signers2: launchKeys, mut: "identical"},
		{name: "unknown-consumer", signers2: launchKeys, mut: "unknown-consumer"},
	}
	for _, s := range specs {
		s := s
		name := "misbehaviour(" + s.name + ")"
		w.tab.Add(name, func(n engine.Node) (engine.Node, []V) {
			x := n.(*evNode)
			ctx := x.S.Ctx
			now := x.S.Time()
			cid := "0"
			if w.gone(x, cid) {
				return nil, nil
			}
			clientID, _ := p.K.GetConsumerClientId(ctx, cid)
			trusted := clienttypes.NewHeight(0, 10)
			if cs, ok := p.PApp.IBCKeeper.ClientKeeper.GetClientState(ctx, clientID); ok {
				trusted = cs.(*ibctm.ClientState).LatestHeight
			}
			chain, h1h, h2h := "cons-e", int64(30), int64(30)
			app2, round2 := "fork", int32(0)
			corrupt := ""
			switch s.mut {
			case "other-client":
				clientID, _ = p.K.GetConsumerClientId(ctx, "1")
			case "other-chain-id":
				chain = "cons-q"
			case "heights-differ":
				h2h = 31
			case "below-min-height":
				h1h, h2h = 9, 9
			case "amnesia":
				app2, round2 = "main", 1 // same state transition, different round
			case "bad-sig":
				corrupt = "kz"
			case "identical":
				app2 = "main"
			case "unknown-consumer":
				cid = "9"
			}
			t := now.Add(-time.Second)
			h1 := w.header(chain, h1h, t, "main", 0, launchKeys, launchKeys, trusted, "")
			vals2 := launchKeys
			if len(s.vals2) > 0 {
				vals2 = s.vals2
			}
			h2 := w.header(chain, h2h, t, app2, round2, vals2, s.signers2, trusted, corrupt, launchKeys...)
			msg := &providertypes.MsgSubmitConsumerMisbehaviour{Submitter: p.Users[0].Addr.String(), ConsumerId: cid,
				Misbehaviour: &ibctm.Misbehaviour{ClientId: clientID, Header1: h1, Header2: h2}}
			var pre [3]evSnap
			for i := range pre {
				pre[i] = w.snap(ctx, i)
			}
			preDump := [][]env.KV{env.Dump(ctx, p.PApp, "provider"), env.Dump(ctx, p.PApp, "staking"), env.Dump(ctx, p.PApp, "slashing")}
			c := x.child()
			r := c.S.Deliver(msg)
			accepted := r.Err == nil
			post := c.S.Ctx
			var vs []V
			// expected byzantine validators: signers of both headers, resolved through the key model
			want := map[int]bool{}
			valid := s.mut == ""
			if s.mut == "amnesia" {
				valid = true // accepted by the light client as a fork at the same height, but nobody equivocated
			}
			dontCare := false
			if valid && s.mut == "" {
				for _, k := range s.signers2 {
					o := w.owner(x, "0", k, now)
					if o == -2 {
						dontCare = true
					}
					if o >= 0 && pre[o].status != stakingtypes.Unbonded && !pre[o].tomb {
						want[o] = true
					}
				}
			}
			if dontCare {
				w.stats.Count("mb:replaced-key-past-deadline(dont-care)")
				if accepted {
					return c, nil
				}
				return nil, nil
			}
			w.stats.Count(fmt.Sprintf("mb:%s:want=%d,accepted=%v", s.name, len(want), accepted))
			if len(want) == 0 {
				if accepted {
					vs = append(vs, vf("C07", "invalid-misbehaviour-accepted:"+s.mut, "%s accepted although nobody can be held responsible (%s)", name, s.mut))
				}
				for i, st := range []string{"provider", "staking", "slashing"} {
					if d := env.DiffKV(preDump[i], env.Dump(post, p.PApp, st)); len(d) > 0 {
						vs = append(vs, vf("C07", "rejected-misbehaviour-changed-state", "%s (accepted=%v) changed %d keys of the %s store", name, accepted, len(d), st))
					}
				}
				if accepted {
					return c, vs
				}
				debugOnce("misbehaviour:"+name, r.Err)
				return nil, vs
			}
			if !accepted {
				debugOnce("misbehaviour:"+name, r.Err)
				return nil, []V{vf("C07", "valid-misbehaviour-rejected", "%s is a valid light-client attack signed by %v but was rejected: %v", name, s.signers2, r.Err)}
			}
			ip, _ := p.K.GetInfractionParameters(ctx, "0")
			for i := range pre {
				a := w.snap(post, i)
				switch {
				case want[i]:
					wantLoss := ip.DoubleSign.SlashFraction.MulInt(sdk.TokensFromConsensusPower(pre[i].lastPower, sdk.DefaultPowerReduction)).TruncateInt()
					loss := pre[i].tokens.Sub(a.tokens)
					okLoss := loss.Equal(wantLoss)
					if i == 2 && want[1] { // plus what is taken from the redelegation v1 -> v2
						extra := ip.DoubleSign.SlashFraction.MulInt(pre[1].red).TruncateInt()
						okLoss = loss.GTE(wantLoss) && loss.LTE(wantLoss.Add(extra))
					}
					if !a.jailed || !a.until.Equal(now.Add(ip.DoubleSign.JailDuration)) || !okLoss {
						vs = append(vs, vf("C07", "misbehaving-signer-not-punished", "%s: v%d signed both headers but: jailed=%v until=%s tokens %s -> %s", name, i, a.jailed, a.until.Format("15:04:05"), pre[i].tokens, a.tokens))
					}
				case !bytes.Equal(a.bz, pre[i].bz):
					// the destination of a slashed redelegation may lose tokens
					if want[1] && i == 2 && a.jailed == pre[i].jailed && a.tomb == pre[i].tomb {
						continue
					}
					vs = append(vs, vf("C07", "misbehaviour-punished-non-signer", "%s: v%d did not sign both headers (or cannot be punished) but changed: jailed %v -> %v tokens %s -> %s", name, i, pre[i].jailed, a.jailed, pre[i].tokens, a.tokens))
				}
			}
			return c, vs
		})
	}
}

func (w *evWorker) ProviderForTier2() *env.Provider { return w.p }
