package scen

import (
	"encoding/json"
	"time"

	"verif/mc/engine"
)

func init() {
	registerScenario("rewards", func(bz json.RawMessage) (engine.Scenario, error) {
		var c Rewards
		if err := json.Unmarshal(bz, &c); err != nil {
			return nil, err
		}
		return c, nil
	})
	register("C16", func(tier string) CheckSpec {
		depth, budget := 5, 280*time.Second
		if tier == "thorough" {
			depth, budget = 7, 20*time.Minute
		}
		var us []Unit
		for _, f := range []struct {
			frac   string
			period int64
			dup    bool
			cap    uint32
		}{{"0.75", 2, false, 0}, {"0.25", 1, true, 0}, {"0", 3, false, 0}, {"1", 1, false, 0}, {"0.5", 1, false, 40}} {
			us = append(us, Search{Sc: Rewards{Fraction: f.frac, Period: f.period, Dup: f.dup, Cap: f.cap}, Depth: depth})
		}
		us = append(us, Search{Sc: Rewards{Fraction: "0.5", Period: 1, Prov: true}, Depth: depth})
		return CheckSpec{Level: "model_checking", Rule: searchRule, Assumptions: append([]string{
			"fees reach the consumer's fee collector through the bank call the ante handler makes; the reward transfer runs through the real ibc-go transfer keeper (escrow, voucher mint) and the provider's transfer middleware; packet relay and channel handshakes through ibc-go's real core message server (proof oracle for Merkle verification)",
			"the consumer is honest (the reward memo carries its own consumer id)",
		}, commonAssumptions...), Budget: budget, Units: us,
			MustSee: []string{"rewards-sent", "rewards-credited", "payout", "in-set-but-not-yet-eligible", "credit-in-disallowed-denom-kept", "due-but-channel-closed", "payout-with-nobody-eligible", "two-denoms-in-one-transmission"}}
	})
}
