package scen

import (
	"fmt"
	"strings"
	"time"

	sdk "github.com/cosmos/cosmos-sdk/types"
	clienttypes "github.com/cosmos/ibc-go/v10/modules/core/02-client/types"
	conntypes "github.com/cosmos/ibc-go/v10/modules/core/03-connection/types"
	channeltypes "github.com/cosmos/ibc-go/v10/modules/core/04-channel/types"
	commitmenttypes "github.com/cosmos/ibc-go/v10/modules/core/23-commitment/types"
	ibcexported "github.com/cosmos/ibc-go/v10/modules/core/exported"
	ibctm "github.com/cosmos/ibc-go/v10/modules/light-clients/07-tendermint"

	"verif/mc/engine"
	"verif/mc/env"

	providertypes "github.com/cosmos/interchain-security/v7/x/ccv/provider/types"
	ccv "github.com/cosmos/interchain-security/v7/x/ccv/types"
)

// Handshake is the C17 scenario: every combination of handshake parameters on both sides, repeated
// attempts, and launches on a pre-existing connection that several consumers name.
type Handshake struct{ Variant string }

func (c Handshake) Name() string           { return "handshake" }
func (c Handshake) Params() map[string]any { return map[string]any{"Variant": c.Variant} }

type hsChan struct {
	ID   string
	Cons string // consumer whose client the hop is built on ("" = none / unrelated)
	Open bool
}

type hsNode struct {
	*XNode
	PChans []hsChan // TRYOPEN / OPEN channels on the provider port created by accepted tries
	CInits []string // INIT channels on consumer 0
}

func (n *hsNode) clone() *hsNode {
	return &hsNode{XNode: n.XNode.Clone(), PChans: append([]hsChan{}, n.PChans...), CInits: append([]string{}, n.CInits...)}
}

type hsWorker struct {
	w      *XWorld
	p      *env.Provider
	tab    Table
	root   *hsNode
	stats  *engine.Stats
	rootVs []V
	connOf map[string]string // label -> provider-side connection id
	consOf map[string]string // provider-side connection id -> consumer id whose client it uses
	zConn  string
	cConn  string // consumer 0's connection to the provider
	cWrong string // consumer 0's connection over an unrelated client
}

func newTMClient(chainID string, t time.Time) (*ibctm.ClientState, *ibctm.ConsensusState) {
	cs := ibctm.NewClientState(chainID, ibctm.DefaultTrustLevel, 600*time.Second, 900*time.Second, 10*time.Second,
		clienttypes.NewHeight(clienttypes.ParseChainID(chainID), 1), commitmenttypes.GetSDKSpecs(), []string{"upgrade", "upgradedIBCState"})
	return cs, ibctm.NewConsensusState(t, commitmenttypes.NewMerkleRoot([]byte(ibctm.SentinelRoot)), make([]byte, 32))
}

func createClient(s *env.State, k interface {
	CreateClient(ctx sdk.Context, clientType string, clientState, consensusState []byte) (string, error)
}, chainID string) (string, error) {
	cs, cons := newTMClient(chainID, s.Time())
	a, _ := cs.Marshal()
	b, _ := cons.Marshal()
	return k.CreateClient(s.Ctx, ibcexported.Tendermint, a, b)
}

func (c Handshake) NewWorker(stats *engine.Stats) (engine.Worker, error) {
	p, err := env.NewProvider(env.ProviderCfg{SelfTokens: []int64{3 * unit, 2 * unit, 1 * unit}, Users: 2})
	if err != nil {
		return nil, err
	}
	xw := &XWorld{P: p, CA: env.NewConsumerApp(), Stats: stats, Delay: 1}
	w := &hsWorker{w: xw, p: p, stats: stats, connOf: map[string]string{}, consOf: map[string]string{}}
	st := p.Root.Branch()
	A, B := p.Users[0].Addr.String(), p.Users[1].Addr.String()
	must := func(s *env.State, m sdk.Msg) error {
		if r := s.Deliver(m); r.Err != nil {
			return fmt.Errorf("%T: %w", m, r.Err)
		}
		return nil
	}
	pk := p.PApp.IBCKeeper
	// a client + connection that exist before any consumer names them (chain "cons-z"), and an unrelated one
	zClient, err := createClient(&st, pk.ClientKeeper, "cons-z")
	if err != nil {
		return nil, err
	}
	oClient, err := createClient(&st, pk.ClientKeeper, "other")
	if err != nil {
		return nil, err
	}
	mkConn := func(client string) string {
		id := pk.ConnectionKeeper.GenerateConnectionIdentifier(st.Ctx)
		pk.ConnectionKeeper.SetConnection(st.Ctx, id, conntypes.NewConnectionEnd(conntypes.OPEN, client,
			conntypes.NewCounterparty("07-tendermint-0", "connection-0", commitmenttypes.NewMerklePrefix([]byte("ibc"))), conntypes.GetCompatibleVersions(), 0))
		return id
	}
	w.zConn = mkConn(zClient)
	w.connOf["other"] = mkConn(oClient)
	for _, chain := range []string{"cons-x", "cons-y"} {
		if err := must(&st, env.MsgCreateConsumer(A, chain, env.ConsumerInit{Spawn: st.Time()}.Params(chain), nil)); err != nil {
			return nil, err
		}
	}
	// two consumers naming the same pre-existing connection and chain id; they launch 12 s later
	for _, owner := range []string{A, B} {
		ci := env.ConsumerInit{Spawn: st.Time().Add(12 * time.Second), ConnID: w.zConn}
		if err := must(&st, env.MsgCreateConsumer(owner, "cons-z", ci.Params("cons-z"), nil)); err != nil {
			return nil, err
		}
	}
	for _, id := range []string{"0", "1", "2", "3"} {
		if err := must(&st, env.MsgOptIn(p.Vals[0], id, nil)); err != nil {
			return nil, err
		}
	}
	n := &hsNode{XNode: &XNode{P: st, C: map[string]env.State{}, L: map[string]env.Link{}}}
	if r := xw.PBlock(n.XNode, 0, nil); r.Halt() != "" {
		return nil, fmt.Errorf("prefix block: %s", r.Halt())
	}
	for _, cid := range []string{"0", "1"} {
		if _, err := xw.Boot(n.XNode, cid); err != nil {
			return nil, fmt.Errorf("boot %s: %w", cid, err)
		}
		n.touchP()
		n.touchC(cid)
		pp, cc, l := n.P, n.C[cid], n.L[cid]
		env.OpenConnection(&pp, pk, &cc, xw.CA.CApp.IBCKeeper, &l)
		n.P, n.C[cid], n.L[cid] = pp, cc, l
		w.connOf["c"+cid] = l.PConn
		w.consOf[l.PConn] = cid
		if cid == "0" {
			w.cConn = l.CConn
		}
	}
	// consumer 0 also has a connection over a client that is not its provider client
	n.touchC("0")
	c0 := n.C["0"]
	ck := xw.CA.CApp.IBCKeeper
	wc, err := createClient(&c0, ck.ClientKeeper, "not-the-provider")
	if err != nil {
		return nil, err
	}
	w.cWrong = ck.ConnectionKeeper.GenerateConnectionIdentifier(c0.Ctx)
	ck.ConnectionKeeper.SetConnection(c0.Ctx, w.cWrong, conntypes.NewConnectionEnd(conntypes.OPEN, wc,
		conntypes.NewCounterparty("07-tendermint-9", "connection-9", commitmenttypes.NewMerklePrefix([]byte("ibc"))), conntypes.GetCompatibleVersions(), 0))
	n.C["0"] = c0
	w.connOf["z"] = w.zConn
	w.root = n
	w.rootVs = w.bijection(n, "fixture")
	w.build()
	return w, nil
}

func (w *hsWorker) RootViolations() []V            { return w.rootVs }
func (w *hsWorker) Root() engine.Node              { return w.root }
func (w *hsWorker) Enabled(n engine.Node) []string { return w.tab.Names() }
func (w *hsWorker) Apply(n engine.Node, ev string) (engine.Node, []V) {
	return w.tab.Apply(n, ev)
}
func (w *hsWorker) Hash(n engine.Node) [32]byte {
	x := n.(*hsNode)
	return w.w.hashNode(x.XNode, fmt.Sprint(x.PChans, x.CInits))
}

// bijection (C17): consumer - client - channel relations are one to one in every state.
func (w *hsWorker) bijection(n *hsNode, when string) []V {
	p := w.p
	ctx := n.P.Ctx
	var vs []V
	next, _ := p.K.GetConsumerId(ctx)
	clientOwner := map[string]string{}
	chanOwner := map[string]string{}
	for i := uint64(0); i < next; i++ {
		id := fmt.Sprint(i)
		if cl, ok := p.K.GetConsumerClientId(ctx, id); ok {
			if other, dup := clientOwner[cl]; dup {
				vs = append(vs, vf("C17", "two-consumers-one-client", "%s: consumers %s and %s are both bound to light client %s", when, other, id, cl))
			}
			clientOwner[cl] = id
			if back, ok := p.K.GetClientIdToConsumerId(ctx, cl); !ok || back != id {
				vs = append(vs, vf("C17", "client-index-not-inverse", "%s: consumer %s -> client %s -> consumer %q", when, id, cl, back))
			}
		}
		if ch, ok := p.K.GetConsumerIdToChannelId(ctx, id); ok {
			if other, dup := chanOwner[ch]; dup {
				vs = append(vs, vf("C17", "two-consumers-one-channel", "%s: consumers %s and %s are both bound to channel %s", when, other, id, ch))
			}
			chanOwner[ch] = id
			if back, ok := p.K.GetChannelIdToConsumerId(ctx, ch); !ok || back != id {
				vs = append(vs, vf("C17", "channel-index-not-inverse", "%s: consumer %s -> channel %s -> consumer %q", when, id, ch, back))
			}
			// the channel is built on the client recorded for that consumer
			if chn, ok := p.PApp.IBCKeeper.ChannelKeeper.GetChannel(ctx, ccv.ProviderPortID, ch); ok && len(chn.ConnectionHops) == 1 {
				if conn, ok := p.PApp.IBCKeeper.ConnectionKeeper.GetConnection(ctx, chn.ConnectionHops[0]); ok {
					if cl, _ := p.K.GetConsumerClientId(ctx, id); cl != conn.ClientId {
						vs = append(vs, vf("C17", "channel-on-foreign-client", "%s: consumer %s (client %s) is bound to channel %s built on client %s", when, id, cl, ch, conn.ClientId))
					}
				}
			}
		}
	}
	return vs
}

func (w *hsWorker) build() {
	p := w.p
	pk := p.PApp.IBCKeeper
	type hopSpec struct {
		n    string
		hops func() []string
	}
	hops := []hopSpec{
		{"none", func() []string { return nil }},
		{"c0", func() []string { return []string{w.connOf["c0"]} }},
		{"c1", func() []string { return []string{w.connOf["c1"]} }},
		{"c0+c1", func() []string { return []string{w.connOf["c0"], w.connOf["c1"]} }},
		{"other", func() []string { return []string{w.connOf["other"]} }},
		{"z", func() []string { return []string{w.zConn} }},
		{"missing", func() []string { return []string{"connection-77"} }},
	}
	w.tab.Add("P.block", func(n engine.Node) (engine.Node, []V) {
		c := n.(*hsNode).clone()
		r := w.w.PBlock(c.XNode, 0, nil)
		vs := haltViolation("provider", r)
		if r.Halt() != "" {
			return nil, vs
		}
		vs = append(vs, w.bijection(c, "block")...)
		// every packet that left is on the channel of exactly the consumer it was computed for
		for cid, l := range c.L {
			for _, q := range l.P2C.Packets {
				if back, ok := p.K.GetChannelIdToConsumerId(c.P.Ctx, q.P.SourceChannel); !ok || back != cid {
					vs = append(vs, vf("C17", "packet-on-foreign-channel", "packet on channel %s is attributed to consumer %q, link of consumer %s", q.P.SourceChannel, back, cid))
				}
			}
		}
		return c, vs
	})
	// the first consumer on the shared connection is stopped; the second one is re-scheduled
	ptx := func(name string, mk func(x *hsNode) sdk.Msg) {
		w.tab.Add(name, func(n engine.Node) (engine.Node, []V) {
			x := n.(*hsNode)
			msg := mk(x)
			if msg == nil {
				return nil, nil
			}
			c := x.clone()
			c.touchP()
			if r := c.P.Deliver(msg); r.Err != nil {
				return nil, nil
			}
			return c, w.bijection(c, name)
		})
	}
	ptx("remove(c2)", func(*hsNode) sdk.Msg { return env.MsgRemoveConsumer(p.Users[0].Addr.String(), "2") })
	ptx("update(c3,spawn=now)", func(x *hsNode) sdk.Msg {
		if p.K.GetConsumerPhase(x.P.Ctx, "3") != providertypes.CONSUMER_PHASE_REGISTERED {
			return nil
		}
		ci := env.ConsumerInit{Spawn: x.P.Time(), ConnID: w.zConn}
		return &providertypes.MsgUpdateConsumer{Owner: p.Users[1].Addr.String(), ConsumerId: "3", InitializationParameters: ci.Params("cons-z")}
	})
	for _, h := range hops {
		for _, order := range []channeltypes.Order{channeltypes.ORDERED, channeltypes.UNORDERED} {
			for _, port := range []string{ccv.ProviderPortID, "transfer"} {
				for _, cport := range []string{ccv.ConsumerPortID, "transfer"} {
					for _, ver := range []string{ccv.Version, "2"} {
						h, order, port, cport, ver := h, order, port, cport, ver
						name := fmt.Sprintf("P.try(hops=%s,%s,port=%s,cp=%s,v=%s)", h.n, strings.TrimPrefix(order.String(), "ORDER_"), port, cport, ver)
						w.tab.Add(name, func(n engine.Node) (engine.Node, []V) {
							x := n.(*hsNode)
							if len(x.PChans) >= 3 {
								return nil, nil
							}
							c := x.clone()
							c.touchP()
							pp := c.P
							l := env.Link{}
							a := env.HandshakeArgs{Order: order, Version: ver, PPort: ccv.ProviderPortID, CPort: cport, PHops: h.hops()}
							// expected by the statement
							want := order == channeltypes.ORDERED && port == ccv.ProviderPortID && cport == ccv.ConsumerPortID && ver == ccv.Version && len(a.PHops) == 1
							owner := ""
							if want {
								conn, ok := pk.ConnectionKeeper.GetConnection(pp.Ctx, a.PHops[0])
								if !ok {
									want = false
								} else {
									n := 0
									next, _ := p.K.GetConsumerId(pp.Ctx)
									for i := uint64(0); i < next; i++ {
										if cl, ok := p.K.GetConsumerClientId(pp.Ctx, fmt.Sprint(i)); ok && cl == conn.ClientId {
											n++
											owner = fmt.Sprint(i)
										}
									}
									if n != 1 {
										want = false
									} else if _, has := p.K.GetConsumerIdToChannelId(pp.Ctx, owner); has {
										want = false
									}
								}
							}
							var chID string
							var err error
							if port == ccv.ProviderPortID {
								chID, err = env.ChanOpenTry(&pp, pk, &l, a, "channel-0")
							} else {
								// the provider module asked about a port it is not bound to
								chID, err = env.ChanOpenTryRaw(&pp, pk, ccv.ProviderPortID, port, a, "channel-0")
							}
							w.stats.Count(fmt.Sprintf("try:want=%v,accepted=%v", want, err == nil))
							if (err == nil) != want {
								return nil, []V{vf("C17", fmt.Sprintf("try-acceptance:want=%v", want), "%s: accepted=%v (%v), the statement says accepted=%v", name, err == nil, err, want)}
							}
							if err != nil {
								return nil, nil
							}
							c.P = pp
							c.PChans = append(c.PChans, hsChan{ID: chID, Cons: owner})
							return c, w.bijection(c, name)
						})
					}
				}
			}
		}
	}
	for i := 0; i < 3; i++ {
		i := i
		w.tab.Add(fmt.Sprintf("P.confirm(#%d)", i), func(n engine.Node) (engine.Node, []V) {
			x := n.(*hsNode)
			if i >= len(x.PChans) || x.PChans[i].Open {
				return nil, nil
			}
			c := x.clone()
			c.touchP()
			pp := c.P
			ch := x.PChans[i]
			_, has := p.K.GetConsumerIdToChannelId(pp.Ctx, ch.Cons)
			want := ch.Cons != "" && !has
			err := env.ChanOpenConfirm(&pp, pk, ccv.ProviderPortID, ch.ID)
			w.stats.Count(fmt.Sprintf("confirm:want=%v,accepted=%v", want, err == nil))
			if (err == nil) != want {
				return nil, []V{vf("C17", fmt.Sprintf("confirm-acceptance:want=%v", want), "confirm of channel %s (consumer %s, already has a channel=%v): accepted=%v (%v)", ch.ID, ch.Cons, has, err == nil, err)}
			}
			if err != nil {
				return nil, nil
			}
			c.P = pp
			c.PChans[i].Open = true
			l := c.L[ch.Cons]
			l.PChan, l.Stage = ch.ID, 4
			c.L[ch.Cons] = l
			return c, w.bijection(c, "confirm")
		})
	}
	// the provider never initiates or acknowledges
	w.tab.Add("P.init", func(n engine.Node) (engine.Node, []V) {
		x := n.(*hsNode)
		pp := x.P.Branch()
		err := env.ChanOpenInitOn(&pp, pk, ccv.ProviderPortID, channeltypes.ORDERED, []string{w.connOf["c0"]}, ccv.ConsumerPortID, ccv.Version)
		w.stats.Count(fmt.Sprintf("provider-init:accepted=%v", err == nil))
		if err == nil {
			return nil, []V{vf("C17", "provider-initiated-handshake", "the provider module accepted OnChanOpenInit")}
		}
		return nil, nil
	})
	w.tab.Add("P.ack", func(n engine.Node) (engine.Node, []V) {
		x := n.(*hsNode)
		pp := x.P.Branch()
		err := env.ChanOpenAckRaw(&pp, pk, ccv.ProviderPortID, "channel-0", "channel-0", ccv.Version)
		if err == nil {
			return nil, []V{vf("C17", "provider-acked-handshake", "the provider module accepted OnChanOpenAck")}
		}
		return nil, nil
	})
	// consumer 0 side
	ck := w.w.CA.CApp.IBCKeeper
	for _, hop := range []struct{ n, id string }{{"provider", ""}, {"wrong", "w"}, {"two", "2"}} {
		for _, order := range []channeltypes.Order{channeltypes.ORDERED, channeltypes.UNORDERED} {
			for _, cp := range []string{ccv.ProviderPortID, "transfer"} {
				for _, ver := range []string{ccv.Version, "2"} {
					hop, order, cp, ver := hop, order, cp, ver
					name := fmt.Sprintf("C0.init(hops=%s,%s,cp=%s,v=%s)", hop.n, strings.TrimPrefix(order.String(), "ORDER_"), cp, ver)
					w.tab.Add(name, func(n engine.Node) (engine.Node, []V) {
						x := n.(*hsNode)
						if len(x.CInits) >= 2 {
							return nil, nil
						}
						c := x.clone()
						c.touchC("0")
						cc := c.C["0"]
						hs := []string{w.cConn}
						if hop.id == "w" {
							hs = []string{w.cWrong}
						} else if hop.id == "2" {
							hs = []string{w.cConn, w.cWrong}
						}
						_, hasProv := w.w.CA.K.GetProviderChannel(cc.Ctx)
						want := order == channeltypes.ORDERED && cp == ccv.ProviderPortID && ver == ccv.Version && hop.id == "" && !hasProv
						l := env.Link{}
						err := env.ChanOpenInit(&cc, ck, &l, env.HandshakeArgs{Order: order, Version: ver, PPort: cp, CPort: ccv.ConsumerPortID, CHops: hs})
						w.stats.Count(fmt.Sprintf("consumer-init:want=%v,accepted=%v", want, err == nil))
						if (err == nil) != want {
							return nil, []V{vf("C17", fmt.Sprintf("consumer-init-acceptance:want=%v", want), "%s: accepted=%v (%v), the statement says %v", name, err == nil, err, want)}
						}
						if err != nil {
							return nil, nil
						}
						c.C["0"] = cc
						c.CInits = append(c.CInits, l.CChan)
						return c, nil
					})
				}
			}
		}
	}
}

var _ = providertypes.ModuleName
