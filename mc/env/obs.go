package env

import (
	"crypto/sha256"
	"fmt"
	"hash"
	"sync"
	"sync/atomic"

	abci "github.com/cometbft/cometbft/abci/types"
)

// ObsBuf accumulates a digest of everything a chain hands back to its environment during one
// transition: emitted events (type, attribute keys and values, in order), validator updates and
// whether a message was accepted. C18 compares these digests between replicas and between
// alternative map-iteration orders; no other check looks at them.
type ObsBuf struct {
	h hash.Hash
	N int
}

func NewObsBuf() *ObsBuf { return &ObsBuf{h: sha256.New()} }

func (b *ObsBuf) Reset() { b.h.Reset(); b.N = 0 }

func (b *ObsBuf) Sum() [32]byte {
	var out [32]byte
	copy(out[:], b.h.Sum(nil))
	return out
}

func (b *ObsBuf) add(tag string, evs []abci.Event, ups []abci.ValidatorUpdate) {
	fmt.Fprintf(b.h, "<%s>", tag)
	for _, e := range evs {
		fmt.Fprintf(b.h, "[%s", e.Type)
		for _, a := range e.Attributes {
			fmt.Fprintf(b.h, "|%d:%s=%d:%s", len(a.Key), a.Key, len(a.Value), a.Value)
		}
		fmt.Fprint(b.h, "]")
		b.N++
	}
	for _, u := range ups {
		bz, _ := u.PubKey.Marshal()
		fmt.Fprintf(b.h, "{%x:%d}", bz, u.Power)
	}
}

var (
	obsOn    atomic.Bool
	obsSinks sync.Map // ABCIApp -> *ObsBuf

	appRegMu sync.Mutex
	appReg   []ABCIApp
)

// registerApp notes every app object the harness creates, in creation order.
func registerApp(a ABCIApp) {
	appRegMu.Lock()
	appReg = append(appReg, a)
	appRegMu.Unlock()
}

// AppsCreated returns how many app objects exist; AppsSince the ones created after that mark.
func AppsCreated() int {
	appRegMu.Lock()
	defer appRegMu.Unlock()
	return len(appReg)
}

func AppsSince(mark int) []ABCIApp {
	appRegMu.Lock()
	defer appRegMu.Unlock()
	return append([]ABCIApp{}, appReg[mark:]...)
}

// Observe routes the observations of every chain running on app into b.
func Observe(app ABCIApp, b *ObsBuf) {
	obsSinks.Store(app, b)
	obsOn.Store(true)
}

func (c *Chain) obs(tag string, evs []abci.Event, ups []abci.ValidatorUpdate) {
	if !obsOn.Load() {
		return
	}
	if b, ok := obsSinks.Load(c.App); ok {
		b.(*ObsBuf).add(c.ChainID+"/"+tag, evs, ups)
	}
}
