package scen

import (
	"encoding/json"
	"fmt"
	"os"
	"sort"
	"strings"
	"time"

	sdk "github.com/cosmos/cosmos-sdk/types"
	channeltypes "github.com/cosmos/ibc-go/v10/modules/core/04-channel/types"
	ibckeeper "github.com/cosmos/ibc-go/v10/modules/core/keeper"

	abci "github.com/cometbft/cometbft/abci/types"

	"verif/mc/engine"
	"verif/mc/env"

	consumertypes "github.com/cosmos/interchain-security/v7/x/ccv/consumer/types"
	providertypes "github.com/cosmos/interchain-security/v7/x/ccv/provider/types"
	ccv "github.com/cosmos/interchain-security/v7/x/ccv/types"
)

// XWorld is the shared machinery of the cross-chain scenarios: one provider app, one consumer app
// object (every consumer chain is a branch of its pristine root), and the Net shim state.
type XWorld struct {
	P     *env.Provider
	CA    *env.ConsumerApp
	Stats *engine.Stats
	Delay int64 // a packet sent in sender block h is relayable once the sender is in block >= h+Delay
	// optional edits a consumer chain makes to its own genesis before starting
	ConsumerGenesis func(*consumertypes.GenesisState)
	AppGenesis      []func(map[string]json.RawMessage)
}

// XNode is one world state. Maps are copied on clone; chain states are branched when touched.
type XNode struct {
	P env.State
	C map[string]env.State // consumer id -> chain state (booted chains only)
	L map[string]env.Link  // consumer id -> link
}

func (n *XNode) Clone() *XNode {
	o := &XNode{P: n.P, C: make(map[string]env.State, len(n.C)), L: make(map[string]env.Link, len(n.L))}
	for k, v := range n.C {
		o.C[k] = v
	}
	for k, v := range n.L {
		o.L[k] = v.Clone()
	}
	return o
}

func (n *XNode) touchP() { n.P = n.P.Branch() }
func (n *XNode) touchC(cid string) {
	n.C[cid] = n.C[cid].Branch()
}

// now is the latest block time of any chain: chains follow one wall clock.
func (n *XNode) now() time.Time {
	t := n.P.Time()
	for _, c := range n.C {
		if c.Time().After(t) {
			t = c.Time()
		}
	}
	return t
}

func (w *XWorld) hashNode(n *XNode, extra string) [32]byte {
	h := n.P.HashStores("provider", "staking", "slashing", "ibc")
	var b strings.Builder
	for _, cid := range sortedKeys(n.C) {
		ch := n.C[cid].HashStores("ccvconsumer", "ibc", "slashing")
		b.WriteString(cid)
		b.Write(ch[:])
	}
	for _, cid := range env.SortedLinkIDs(n.L) {
		b.WriteString(cid + "=" + n.L[cid].Digest())
	}
	b.WriteString(extra)
	return mix(h, b.String())
}

// Boot boots the consumer chain cid from the genesis the provider recorded at its launch.
func (w *XWorld) Boot(n *XNode, cid string) ([]abci.ValidatorUpdate, error) {
	gen, found := w.P.K.GetConsumerGenesis(n.P.Ctx, cid)
	if !found {
		return nil, fmt.Errorf("no genesis recorded for consumer %s", cid)
	}
	chainID, err := w.P.K.GetConsumerChainId(n.P.Ctx, cid)
	if err != nil {
		return nil, err
	}
	st, vals, err := w.CA.Boot(chainID, gen, n.now(), w.ConsumerGenesis, w.AppGenesis...)
	if err != nil {
		return vals, err
	}
	n.C[cid] = st
	l := env.Link{}
	l.PClient, _ = w.P.K.GetConsumerClientId(n.P.Ctx, cid)
	l.CClient, _ = w.CA.K.GetProviderClientID(st.Ctx)
	n.L[cid] = l
	return vals, nil
}

func ccvArgs(l env.Link) env.HandshakeArgs {
	return env.HandshakeArgs{Order: channeltypes.ORDERED, Version: ccv.Version, PPort: ccv.ProviderPortID, CPort: ccv.ConsumerPortID,
		PHops: []string{l.PConn}, CHops: []string{l.CConn}}
}

// Open runs connection setup plus the four CCV handshake steps as transactions of the current
// blocks of both chains.
func (w *XWorld) Open(n *XNode, cid string) error {
	l := n.L[cid]
	if l.Stage != 0 {
		return fmt.Errorf("already opening")
	}
	n.touchP()
	n.touchC(cid)
	p, c := n.P, n.C[cid]
	pk, ck := w.P.PApp.IBCKeeper, w.CA.CApp.IBCKeeper
	if NetMode != "shim" {
		if err := w.openCore(&p, &c, &l); err != nil {
			return err
		}
		n.P, n.C[cid], n.L[cid] = p, c, l
		return nil
	}
	env.OpenConnection(&p, pk, &c, ck, &l)
	a := ccvArgs(l)
	if err := env.ChanOpenInit(&c, ck, &l, a); err != nil {
		return fmt.Errorf("init: %w", err)
	}
	pch, err := env.ChanOpenTry(&p, pk, &l, a, l.CChan)
	if err != nil {
		return fmt.Errorf("try: %w", err)
	}
	l.PChan = pch
	ch, _ := pk.ChannelKeeper.GetChannel(p.Ctx, a.PPort, pch)
	if err := env.ChanOpenAck(&c, ck, a.CPort, l.CChan, pch, ch.Version); err != nil {
		return fmt.Errorf("ack: %w", err)
	}
	if err := env.ChanOpenConfirm(&p, pk, a.PPort, pch); err != nil {
		return fmt.Errorf("confirm: %w", err)
	}
	l.Stage = 4
	n.P, n.C[cid], n.L[cid] = p, c, l
	return nil
}

// capture files packets found in events into the links (by source channel).
func (w *XWorld) capture(n *XNode, evs []abci.Event, fromProvider bool, consumer string, height int64) {
	for _, pkt := range env.PacketsFromEvents(evs) {
		for cid, l := range n.L {
			if fromProvider && pkt.SourcePort == ccv.ProviderPortID && pkt.SourceChannel == l.PChan {
				l.P2C.Packets = append(l.P2C.Packets, env.Packet{P: pkt, SentHeight: height})
				n.L[cid] = l
			}
			if !fromProvider && cid == consumer && pkt.SourcePort == ccv.ConsumerPortID && pkt.SourceChannel == l.CChan {
				l.C2P.Packets = append(l.C2P.Packets, env.Packet{P: pkt, SentHeight: height})
				n.L[cid] = l
			}
			if !fromProvider && cid == consumer && pkt.SourcePort == "transfer" && pkt.SourceChannel == l.XCChan {
				l.XC2P.Packets = append(l.XC2P.Packets, env.Packet{P: pkt, SentHeight: height})
				n.L[cid] = l
			}
		}
	}
}

// PBlock: the provider's clients are refreshed (default environment), the block ends, the next begins.
func (w *XWorld) PBlock(n *XNode, extra time.Duration, mid func(s *env.State, r *env.BlockResult)) env.BlockResult {
	n.touchP()
	p := n.P
	for _, cid := range env.SortedLinkIDs(n.L) {
		if c, ok := n.C[cid]; ok {
			// header of the consumer's last committed block: height-1, its block time
			env.RefreshClient(&p, w.P.PApp.IBCKeeper, n.L[cid].PClient, c.Height()-1+1, c.Time())
		}
	}
	target := n.now().Add(5*time.Second + extra)
	h := p.Height()
	r := p.NextBlock(target.Sub(p.Time()), mid)
	n.P = p
	w.capture(n, r.EndEvents, true, "", h)
	w.capture(n, r.BeginEvents, true, "", h+1)
	return r
}

// CBlock: same for a consumer chain.
func (w *XWorld) CBlock(n *XNode, cid string, extra time.Duration, mid func(s *env.State, r *env.BlockResult)) env.BlockResult {
	n.touchC(cid)
	c := n.C[cid]
	env.RefreshClient(&c, w.CA.CApp.IBCKeeper, n.L[cid].CClient, n.P.Height(), n.P.Time())
	target := n.now().Add(5*time.Second + extra)
	if !target.After(c.Time()) {
		target = c.Time().Add(5 * time.Second)
	}
	h := c.Height()
	r := c.NextBlock(target.Sub(c.Time()), mid)
	n.C[cid] = c
	w.capture(n, r.EndEvents, false, cid, h)
	return r
}

// deliverable: head packet of a direction may be relayed now.
func (w *XWorld) relayable(sentHeight, senderHeight int64) bool {
	return senderHeight >= sentHeight+w.Delay
}

// DeliverP2C delivers the first k relayable VSC packets to the consumer as transactions of its
// current block; returns the delivered packets with their acks recorded in the link.
func (w *XWorld) DeliverP2C(n *XNode, cid string, k int) (delivered []env.Packet, results []env.RecvResult) {
	l := n.L[cid]
	n.touchC(cid)
	c := n.C[cid]
	for len(delivered) < k && len(l.P2C.Packets) > 0 {
		pk := l.P2C.Packets[0]
		if !w.relayable(pk.SentHeight, n.P.Height()) {
			break
		}
		res := w.netRecv(&c, w.CA.CApp.IBCKeeper, &n.P, pk.P)
		if res.Err != nil {
			debugOnce("DeliverP2C", res.Err)
			break
		}
		l.P2C.Packets = l.P2C.Packets[1:]
		l.P2C.Acks = append(l.P2C.Acks, env.Ack{P: pk.P, Bytes: res.Ack, WrittenAt: c.Height()})
		delivered = append(delivered, pk)
		results = append(results, res)
	}
	n.C[cid], n.L[cid] = c, l
	return delivered, results
}

// DeliverC2P delivers the first relayable consumer packet (slash / matured) to the provider.
func (w *XWorld) DeliverC2P(n *XNode, cid string) (*env.Packet, *env.RecvResult) {
	l := n.L[cid]
	if len(l.C2P.Packets) == 0 {
		return nil, nil
	}
	pk := l.C2P.Packets[0]
	if !w.relayable(pk.SentHeight, n.C[cid].Height()) {
		return nil, nil
	}
	n.touchP()
	p := n.P
	cst := n.C[cid]
	res := w.netRecv(&p, w.P.PApp.IBCKeeper, &cst, pk.P)
	if res.Err != nil {
		debugOnce("DeliverC2P", res.Err)
		return nil, &res
	}
	l.C2P.Packets = l.C2P.Packets[1:]
	l.C2P.Acks = append(l.C2P.Acks, env.Ack{P: pk.P, Bytes: res.Ack, WrittenAt: p.Height()})
	n.P, n.L[cid] = p, l
	return &pk, &res
}

func decodeVSC(data []byte) (ccv.ValidatorSetChangePacketData, error) {
	var d ccv.ValidatorSetChangePacketData
	err := ccv.ModuleCdc.UnmarshalJSON(data, &d)
	return d, err
}

func consumerSet(p *env.Provider, ctx sdk.Context, cid string) (env.ValSet, error) {
	vals, err := p.K.GetConsumerValSet(ctx, cid)
	if err != nil {
		return nil, err
	}
	out := env.ValSet{}
	for _, v := range vals {
		out[env.PubKeyID(v.PublicKey)] = v.Power
	}
	return out, nil
}

func applyUpdates(base env.ValSet, ups []abci.ValidatorUpdate) env.ValSet {
	o := base.Clone()
	for _, u := range ups {
		id := env.PubKeyID(&u.PubKey)
		if u.Power == 0 {
			delete(o, id)
		} else {
			o[id] = u.Power
		}
	}
	return o
}

func setDigest(m map[uint64]env.ValSet) string {
	ids := make([]uint64, 0, len(m))
	for id := range m {
		ids = append(ids, id)
	}
	sort.Slice(ids, func(i, j int) bool { return ids[i] < ids[j] })
	var b strings.Builder
	for _, id := range ids {
		fmt.Fprintf(&b, "%d=%s;", id, m[id].String())
	}
	return b.String()
}

var _ = providertypes.ModuleName

// Wait lets dt of wall-clock time pass on every chain: each chain ends its block and begins the
// next one at now+dt (provider first, then consumers by id). With relay=true the light clients are
// kept fresh across the gap (default environment: relayers submit client updates all along);
// with relay=false nobody updates them, so a gap longer than a trusting period expires them.
func (w *XWorld) Wait(n *XNode, dt time.Duration, relay bool) (pr env.BlockResult, crs map[string]env.BlockResult) {
	target := n.now().Add(dt)
	pk, ck := w.P.PApp.IBCKeeper, w.CA.CApp.IBCKeeper
	n.touchP()
	p := n.P
	h := p.Height()
	pr = p.NextBlock(target.Sub(p.Time()), nil)
	n.P = p
	w.capture(n, pr.EndEvents, true, "", h)
	w.capture(n, pr.BeginEvents, true, "", h+1)
	crs = map[string]env.BlockResult{}
	for _, cid := range sortedKeys(n.C) {
		n.touchC(cid)
		c := n.C[cid]
		ch := c.Height()
		r := c.NextBlock(target.Sub(c.Time()), nil)
		n.C[cid] = c
		crs[cid] = r
		w.capture(n, r.EndEvents, false, cid, ch)
	}
	if relay {
		p = n.P
		for _, cid := range env.SortedLinkIDs(n.L) {
			if c, ok := n.C[cid]; ok {
				env.ForceRefreshClient(&p, pk, n.L[cid].PClient, c.Height(), c.Time())
				env.ForceRefreshClient(&c, ck, n.L[cid].CClient, p.Height(), p.Time())
				n.C[cid] = c
			}
		}
		n.P = p
	}
	return pr, crs
}

// AckC2P relays the oldest acknowledgement the provider wrote for a consumer packet.
func (w *XWorld) AckC2P(n *XNode, cid string) (*env.Ack, error, string) {
	l := n.L[cid]
	if len(l.C2P.Acks) == 0 {
		return nil, nil, ""
	}
	a := l.C2P.Acks[0]
	if !w.relayable(a.WrittenAt, n.P.Height()) {
		return nil, nil, ""
	}
	n.touchC(cid)
	c := n.C[cid]
	_, err, pan := w.netAck(&c, w.CA.CApp.IBCKeeper, &n.P, a.P, a.Bytes)
	if err != nil || pan != "" {
		return &a, err, pan
	}
	l.C2P.Acks = l.C2P.Acks[1:]
	n.C[cid], n.L[cid] = c, l
	return &a, nil, ""
}

// AckP2C relays the oldest acknowledgement a consumer wrote for a provider packet.
func (w *XWorld) AckP2C(n *XNode, cid string) (*env.Ack, error, string) {
	l := n.L[cid]
	if len(l.P2C.Acks) == 0 {
		return nil, nil, ""
	}
	a := l.P2C.Acks[0]
	n.touchP()
	p := n.P
	cst := n.C[cid]
	_, err, pan := w.netAck(&p, w.P.PApp.IBCKeeper, &cst, a.P, a.Bytes)
	if err != nil || pan != "" {
		return &a, err, pan
	}
	l.P2C.Acks = l.P2C.Acks[1:]
	n.P, n.L[cid] = p, l
	return &a, nil, ""
}

// TimeoutP2C times out the oldest undelivered provider packet (allowed once the consumer's clock has
// passed the packet's timeout timestamp).
func (w *XWorld) TimeoutP2C(n *XNode, cid string) (*env.Packet, error, string) {
	l := n.L[cid]
	if len(l.P2C.Packets) == 0 {
		return nil, nil, ""
	}
	pk := l.P2C.Packets[0]
	c, ok := n.C[cid]
	if !ok || pk.P.TimeoutTimestamp == 0 || uint64(c.Time().UnixNano()) < pk.P.TimeoutTimestamp {
		return nil, nil, ""
	}
	n.touchP()
	p := n.P
	_, err, pan := w.netTimeout(&p, w.P.PApp.IBCKeeper, &c, w.CA.CApp.IBCKeeper, pk.P)
	if err != nil || pan != "" {
		return &pk, err, pan
	}
	l.P2C.Packets = l.P2C.Packets[1:]
	n.P, n.L[cid] = p, l
	return &pk, nil, ""
}

// OpenTransfer completes the handshake of the reward-transfer channel the consumer initiated when the
// CCV channel was acknowledged (Try on the provider, Ack on the consumer, Confirm on the provider).
func (w *XWorld) OpenTransfer(n *XNode, cid string) error {
	l := n.L[cid]
	n.touchP()
	n.touchC(cid)
	p, c := n.P, n.C[cid]
	pk, ck := w.P.PApp.IBCKeeper, w.CA.CApp.IBCKeeper
	l.XCChan = w.CA.K.GetDistributionTransmissionChannel(c.Ctx)
	if l.XCChan == "" {
		return fmt.Errorf("consumer has not initiated a transfer channel")
	}
	a := env.HandshakeArgs{Order: channeltypes.UNORDERED, Version: "ics20-1", PPort: "transfer", CPort: "transfer", PHops: []string{l.PConn}, CHops: []string{l.CConn}}
	if NetMode != "shim" {
		pch, err := env.CoreChanOpenTry(&p, pk, &c, "transfer", "transfer", l.XCChan, channeltypes.UNORDERED, a.PHops, "ics20-1")
		if err != nil {
			return fmt.Errorf("transfer try: %w", err)
		}
		l.XPChan = pch
		if err := env.CoreChanOpenAck(&c, ck, &p, "transfer", l.XCChan, pch, "ics20-1"); err != nil {
			return fmt.Errorf("transfer ack: %w", err)
		}
		if err := env.CoreChanOpenConfirm(&p, pk, &c, "transfer", pch); err != nil {
			return fmt.Errorf("transfer confirm: %w", err)
		}
		l.XStage = 4
		n.P, n.C[cid], n.L[cid] = p, c, l
		return nil
	}
	pch, err := env.ChanOpenTry(&p, pk, &l, a, l.XCChan)
	if err != nil {
		return fmt.Errorf("transfer try: %w", err)
	}
	l.XPChan = pch
	if err := env.ChanOpenAck(&c, ck, "transfer", l.XCChan, pch, "ics20-1"); err != nil {
		return fmt.Errorf("transfer ack: %w", err)
	}
	if err := env.ChanOpenConfirm(&p, pk, "transfer", pch); err != nil {
		return fmt.Errorf("transfer confirm: %w", err)
	}
	l.XStage = 4
	n.P, n.C[cid], n.L[cid] = p, c, l
	return nil
}

// DeliverXfer delivers the oldest reward-transfer packet to the provider.
func (w *XWorld) DeliverXfer(n *XNode, cid string) (*env.Packet, *env.RecvResult) {
	l := n.L[cid]
	if len(l.XC2P.Packets) == 0 {
		return nil, nil
	}
	pk := l.XC2P.Packets[0]
	if !w.relayable(pk.SentHeight, n.C[cid].Height()) {
		return nil, nil
	}
	n.touchP()
	p := n.P
	cst := n.C[cid]
	res := w.netRecv(&p, w.P.PApp.IBCKeeper, &cst, pk.P)
	if res.Err != nil {
		debugOnce("DeliverXfer", res.Err)
		return nil, &res
	}
	l.XC2P.Packets = l.XC2P.Packets[1:]
	l.XC2P.Acks = append(l.XC2P.Acks, env.Ack{P: pk.P, Bytes: res.Ack, WrittenAt: p.Height()})
	n.P, n.L[cid] = p, l
	return &pk, &res
}

// AckXfer relays the oldest acknowledgement of a reward transfer back to the consumer.
func (w *XWorld) AckXfer(n *XNode, cid string) (*env.Ack, error, string) {
	l := n.L[cid]
	if len(l.XC2P.Acks) == 0 {
		return nil, nil, ""
	}
	a := l.XC2P.Acks[0]
	n.touchC(cid)
	c := n.C[cid]
	_, err, pan := w.netAck(&c, w.CA.CApp.IBCKeeper, &n.P, a.P, a.Bytes)
	if err != nil || pan != "" {
		return &a, err, pan
	}
	l.XC2P.Acks = l.XC2P.Acks[1:]
	n.C[cid], n.L[cid] = c, l
	return &a, nil, ""
}

// NetMode selects how IBC core is represented: "core" (default) sends the real core messages
// (MsgConnectionOpen*, MsgChannelOpen*, MsgRecvPacket, MsgAcknowledgement, MsgTimeout) to ibc-go's own
// message server with Merkle verification answered by the proof oracle (env/core.go); "shim" uses the
// hand-written stand-in of env/net.go; "diff" executes every packet operation both ways on two
// branches and requires identical module state and acknowledgements (conformance of the stand-in).
var NetMode = func() string {
	if m := os.Getenv("VERIF_NET"); m != "" {
		return m
	}
	return "core"
}()

var diffStores = map[string][]string{
	"provider": {"provider", "staking", "slashing", "bank", "distribution", "transfer"},
	"consumer": {"ccvconsumer", "slashing", "bank", "transfer"},
}

func sideOf(s *env.State) string {
	if s.C.App.GetKey("provider") != nil {
		return "provider"
	}
	return "consumer"
}

func (w *XWorld) diffStates(what string, a, b *env.State) {
	for _, st := range diffStores[sideOf(a)] {
		if d := env.DiffKV(env.Dump(a.Ctx, a.C.App, st), env.Dump(b.Ctx, b.C.App, st)); len(d) > 0 {
			w.Stats.Count("net-diff:DISAGREE:" + what + ":" + st)
			debugOnce("net-diff "+what+" store "+st, fmt.Errorf("%d keys differ, first %x", len(d), d[0]))
			return
		}
	}
	w.Stats.Count("net-diff:agree:" + what)
}

func (w *XWorld) openCore(p, c *env.State, l *env.Link) error {
	pk, ck := w.P.PApp.IBCKeeper, w.CA.CApp.IBCKeeper
	if err := env.CoreOpenConnection(p, pk, c, ck, l); err != nil {
		return err
	}
	cch, err := env.CoreChanOpenInit(c, ck, p, ccv.ConsumerPortID, ccv.ProviderPortID, channeltypes.ORDERED, []string{l.CConn}, ccv.Version)
	if err != nil {
		return fmt.Errorf("init: %w", err)
	}
	l.CChan = cch
	pch, err := env.CoreChanOpenTry(p, pk, c, ccv.ProviderPortID, ccv.ConsumerPortID, cch, channeltypes.ORDERED, []string{l.PConn}, ccv.Version)
	if err != nil {
		return fmt.Errorf("try: %w", err)
	}
	l.PChan = pch
	ch, _ := pk.ChannelKeeper.GetChannel(p.Ctx, ccv.ProviderPortID, pch)
	if err := env.CoreChanOpenAck(c, ck, p, ccv.ConsumerPortID, cch, pch, ch.Version); err != nil {
		return fmt.Errorf("ack: %w", err)
	}
	if err := env.CoreChanOpenConfirm(p, pk, c, ccv.ProviderPortID, pch); err != nil {
		return fmt.Errorf("confirm: %w", err)
	}
	l.Stage = 4
	return nil
}

func keeperOf(w *XWorld, s *env.State) *ibckeeper.Keeper {
	if sideOf(s) == "provider" {
		return w.P.PApp.IBCKeeper
	}
	return w.CA.CApp.IBCKeeper
}

func (w *XWorld) netRecv(dst *env.State, k *ibckeeper.Keeper, src *env.State, pkt channeltypes.Packet) env.RecvResult {
	switch NetMode {
	case "shim":
		return env.Recv(dst, k, pkt)
	case "diff":
		a, b := dst.Branch(), dst.Branch()
		ra := env.Recv(&a, k, pkt)
		rb := env.CoreRecv(&b, k, src, pkt)
		if (ra.Err == nil) != (rb.Err == nil) || string(ra.Ack) != string(rb.Ack) || ra.Success != rb.Success || (ra.Panic == "") != (rb.Panic == "") {
			w.Stats.Count("net-diff:DISAGREE:recv-result")
			debugOnce("net-diff recv", fmt.Errorf("shim err=%v ack=%s / core err=%v ack=%s", ra.Err, ra.Ack, rb.Err, rb.Ack))
		} else {
			w.diffStates("recv", &a, &b)
		}
		*dst = b
		return rb
	}
	return env.CoreRecv(dst, k, src, pkt)
}

func (w *XWorld) netAck(s *env.State, k *ibckeeper.Keeper, peer *env.State, pkt channeltypes.Packet, ack []byte) ([]abci.Event, error, string) {
	switch NetMode {
	case "shim":
		return env.AckPacket(s, k, pkt, ack)
	case "diff":
		a, b := s.Branch(), s.Branch()
		_, ea, pa := env.AckPacket(&a, k, pkt, ack)
		evs, eb, pb := env.CoreAck(&b, k, peer, pkt, ack)
		if (ea == nil) != (eb == nil) || (pa == "") != (pb == "") {
			w.Stats.Count("net-diff:DISAGREE:ack-result")
			debugOnce("net-diff ack", fmt.Errorf("shim err=%v / core err=%v", ea, eb))
		} else {
			w.diffStates("ack", &a, &b)
		}
		*s = b
		return evs, eb, pb
	}
	return env.CoreAck(s, k, peer, pkt, ack)
}

func (w *XWorld) netTimeout(s *env.State, k *ibckeeper.Keeper, peer *env.State, peerK *ibckeeper.Keeper, pkt channeltypes.Packet) ([]abci.Event, error, string) {
	switch NetMode {
	case "shim":
		return env.TimeoutPacket(s, k, pkt)
	case "diff":
		a, b := s.Branch(), s.Branch()
		_, ea, pa := env.TimeoutPacket(&a, k, pkt)
		evs, eb, pb := env.CoreTimeout(&b, k, peer, peerK, pkt)
		if (ea == nil) != (eb == nil) || (pa == "") != (pb == "") {
			w.Stats.Count("net-diff:DISAGREE:timeout-result")
			debugOnce("net-diff timeout", fmt.Errorf("shim err=%v / core err=%v", ea, eb))
		} else {
			w.diffStates("timeout", &a, &b)
		}
		*s = b
		return evs, eb, pb
	}
	return env.CoreTimeout(s, k, peer, peerK, pkt)
}
