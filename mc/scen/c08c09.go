package scen

import (
	"encoding/json"
	"time"

	"verif/mc/engine"
)

func slashUnits(tier string) []Unit {
	d := 0
	if tier == "thorough" {
		d = 2
	}
	return []Unit{
		Search{Sc: Slash{Variant: "full"}, Depth: 4 + d},
		Search{Sc: Slash{Variant: "ackloop"}, Depth: 7 + d},
		Search{Sc: Slash{Variant: "throttle"}, Depth: 5 + d},
		Search{Sc: Slash{Variant: "retry"}, Depth: 5 + d},
		Search{Sc: Slash{Variant: "epoch3"}, Depth: 6 + d},
	}
}

func init() {
	registerScenario("slash", func(bz json.RawMessage) (engine.Scenario, error) {
		var c Slash
		if err := json.Unmarshal(bz, &c); err != nil {
			return nil, err
		}
		return c, nil
	})
	xa := append([]string{
		"IBC is ibc-go's real core message server on both chains (handshakes, MsgRecvPacket, MsgAcknowledgement, MsgTimeout: client status, timeouts, sequences, commitments, acknowledgements, rollback are ibc-go's code); only Merkle proof verification is answered by a proof oracle that looks the claimed key up in the counterparty's actual store, and light-client updates are written as consensus states",
		"an infraction on a consumer is reported through the exact keeper call the consumer's slashing / evidence modules make (SlashWithInfractionReason); CometBFT vote infos are not modelled",
		"long waits (30 min, 1 h) are global: every chain lives through them and relayers keep the light clients fresh",
	}, commonAssumptions...)
	register("C08", func(tier string) CheckSpec {
		budget := 280 * time.Second
		if tier == "thorough" {
			budget = 20 * time.Minute
		}
		return CheckSpec{Level: "model_checking", Rule: searchRule, Assumptions: xa, Budget: budget, Units: slashUnits(tier),
			MustSee: []string{"slash:jailed", "slash:already-jailed", "slash:not-in-set", "slash:not-launched", "slash:double-sign", "slash:bounced", "slash:unknown-id",
				"report-while-outstanding", "vsc-with-slash-acks", "slash-ack-received", "ack-relayed:handled"}}
	})
	register("C09", func(tier string) CheckSpec {
		budget := 280 * time.Second
		if tier == "thorough" {
			budget = 20 * time.Minute
		}
		return CheckSpec{Level: "model_checking", Rule: searchRule, Assumptions: xa, Budget: budget, Units: slashUnits(tier),
			MustSee: []string{"slash:jailed", "slash:bounced", "meter-replenished", "ack-relayed:bounced", "ack-relayed:handled", "slash-sent", "slash-retried"}}
	})
	c12Extra = func(tier string) []Unit { return []Unit{Search{Sc: Slash{Variant: "full"}, Depth: 4}} }
}
