package env

import (
	"encoding/json"
	"fmt"
	"time"

	"cosmossdk.io/log"

	dbm "github.com/cosmos/cosmos-db"
	cryptocodec "github.com/cosmos/cosmos-sdk/crypto/codec"
	simtestutil "github.com/cosmos/cosmos-sdk/testutil/sims"
	sdk "github.com/cosmos/cosmos-sdk/types"
	authtypes "github.com/cosmos/cosmos-sdk/x/auth/types"
	banktypes "github.com/cosmos/cosmos-sdk/x/bank/types"
	stakingtypes "github.com/cosmos/cosmos-sdk/x/staking/types"

	abci "github.com/cometbft/cometbft/abci/types"
	cmttypes "github.com/cometbft/cometbft/types"

	ibckeeper "github.com/cosmos/ibc-go/v10/modules/core/keeper"

	appConsumer "github.com/cosmos/interchain-security/v7/app/consumer"
	appProvider "github.com/cosmos/interchain-security/v7/app/provider"
	consumerkeeper "github.com/cosmos/interchain-security/v7/x/ccv/consumer/keeper"
	consumertypes "github.com/cosmos/interchain-security/v7/x/ccv/consumer/types"
	ccv "github.com/cosmos/interchain-security/v7/x/ccv/types"
)

// ConsumerApp is one consumer application object whose committed stores stay empty: every consumer
// chain of a world is booted on its own branch of that pristine root.
type ConsumerApp struct {
	// Record makes every chain booted from now on log its linear execution (conformance replay)
	Record bool
	Booted []*Chain // chains booted while recording
	CApp   *appConsumer.App
	K      consumerkeeper.Keeper
	base   sdk.Context
}

// RecordNextConsumers makes the next NewConsumerApp record the chains booted on it.
var RecordNextConsumers bool

func NewConsumerApp() *ConsumerApp {
	app := appConsumer.New(log.NewNopLogger(), dbm.NewMemDB(), nil, true, simtestutil.EmptyAppOptions{})
	ca := &ConsumerApp{CApp: app, K: app.ConsumerKeeper, Record: RecordNextConsumers}
	RecordNextConsumers = false
	registerApp(app)
	ca.base = app.NewUncachedContext(false, WithHeader(sdk.Context{}, "pristine", 0, GenesisTime).BlockHeader())
	return ca
}

// Boot does what a new consumer chain does at genesis: the app's own InitChainer with a genesis
// document whose ccvconsumer section is the genesis the provider recorded at launch. It returns the
// chain state inside block 1 and the validator set handed to the consensus engine.
func (ca *ConsumerApp) Boot(chainID string, gen ccv.ConsumerGenesisState, genesisTime time.Time, mutate func(*consumertypes.GenesisState), genMutate ...func(map[string]json.RawMessage)) (State, []abci.ValidatorUpdate, error) {
	app := ca.CApp
	enc := appConsumer.MakeTestEncodingConfig()
	cdc := enc.Codec
	g := appConsumer.NewDefaultGenesisState(cdc)
	g[stakingtypes.ModuleName] = cdc.MustMarshalJSON(&stakingtypes.GenesisState{Params: stakingtypes.Params{BondDenom: BondDenom}})
	// the consumer's genesis state is the provider's record re-read in the consumer's own type
	bz := cdc.MustMarshalJSON(&gen)
	var cg consumertypes.GenesisState
	if err := cdc.UnmarshalJSON(bz, &cg); err != nil {
		return State{}, nil, fmt.Errorf("re-reading provider genesis as consumer genesis: %w", err)
	}
	if mutate != nil {
		mutate(&cg)
	}
	g[consumertypes.ModuleName] = cdc.MustMarshalJSON(&cg)
	// the relayer's account (it signs the IBC messages of the conformance replay)
	g[authtypes.ModuleName] = cdc.MustMarshalJSON(authtypes.NewGenesisState(authtypes.DefaultParams(),
		[]authtypes.GenesisAccount{authtypes.NewBaseAccount(Relayer.Addr, Relayer.Priv.PubKey(), 0, 0)}))
	g[banktypes.ModuleName] = cdc.MustMarshalJSON(banktypes.NewGenesisState(banktypes.DefaultParams(),
		[]banktypes.Balance{{Address: Relayer.Addr.String(), Coins: sdk.NewCoins(sdk.NewInt64Coin(BondDenom, acctFunds))}}, nil, nil, nil))
	for _, f := range genMutate {
		f(g)
	}
	stateBytes, err := json.Marshal(g)
	if err != nil {
		return State{}, nil, err
	}
	ctx, _ := ca.base.CacheContext()
	ctx = WithHeader(ctx, chainID, 0, genesisTime)
	if err := app.StoreConsensusParams(ctx, cmttypes.DefaultConsensusParams().ToProto()); err != nil {
		return State{}, nil, err
	}
	var res *abci.ResponseInitChain
	func() {
		defer func() {
			if r := recover(); r != nil {
				err = fmt.Errorf("consumer InitChainer panicked: %v", r)
			}
		}()
		res, err = app.InitChainer(ctx, &abci.RequestInitChain{ChainId: chainID, Time: genesisTime, InitialHeight: 1, AppStateBytes: stateBytes})
	}()
	if err != nil {
		return State{}, nil, err
	}
	eng, err := ValSet{}.ApplyUpdates(res.Validators)
	if err != nil {
		return State{}, res.Validators, fmt.Errorf("consumer genesis validator set: %w", err)
	}
	ch := &Chain{App: app, ChainID: chainID, TKeys: []string{"transient_params"}}
	if ca.Record {
		ch.Rec = &Recorder{Stores: []string{consumertypes.StoreKey}, Genesis: stateBytes, GenesisTime: genesisTime, InitVals: res.Validators}
		ca.Booted = append(ca.Booted, ch)
	}
	st := State{C: ch, Ctx: ctx, Engine: eng, Depth: 1}
	st.resetTransient()
	st.Ctx = WithHeader(st.Ctx, chainID, 1, genesisTime.Add(5*time.Second))
	if err, _ := st.begin(); err != nil {
		return State{}, res.Validators, fmt.Errorf("consumer BeginBlock(1): %w", err)
	}
	return st, res.Validators, nil
}

// CCVals returns the consumer module's stored cross-chain validator set.
func (ca *ConsumerApp) CCVals(ctx sdk.Context) ValSet {
	out := ValSet{}
	for _, v := range ca.K.GetAllCCValidator(ctx) {
		pk, err := v.ConsPubKey()
		if err != nil {
			continue
		}
		tm, err := cryptocodec.ToCmtProtoPublicKey(pk)
		if err != nil {
			continue
		}
		out[PubKeyID(&tm)] = v.Power
	}
	return out
}

// CK returns the consumer keeper of whatever consumer application a raw operation is handed.
func CK(app ABCIApp) consumerkeeper.Keeper { return app.(*appConsumer.App).ConsumerKeeper }

// PA / IBCK reach the provider application / the IBC keeper of whatever application a raw operation is handed.
func PA(app ABCIApp) *appProvider.App { return app.(*appProvider.App) }

func IBCK(app ABCIApp) *ibckeeper.Keeper {
	return app.(interface{ GetIBCKeeper() *ibckeeper.Keeper }).GetIBCKeeper()
}
