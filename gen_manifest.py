#!/usr/bin/env python3
"""Regenerates MANIFEST.json from the table below (keeps not_applicable current)."""
import json
T = "explicit-state model checking of the implementation (exhaustive bounded search over copy-on-write branches of the real app state, oracle in every state/transition)"
G = "exhaustive input-grid enumeration through the real keeper functions + explicit-state search for the in-situ composition"
NOTE = "CometBFT replaced by the harness block driver; messages via MsgServiceRouter (no ante handlers); small validator sets and value alphabets; depth bound as reported in the evidence"
XNOTE = "Net shim in place of IBC core proof verification / ordered-channel bookkeeping (real ibc-go keepers for SendPacket, clients, channels); consumer chains booted through the consumer app's own InitChainer from the provider's recorded genesis; CometBFT replaced by the harness block driver; messages via MsgServiceRouter; bounds as reported in the evidence"
XPROPS = {"C01", "C08", "C09", "C11", "C12", "C16", "C17"}
checks = {
 "C01": ("model_checking", T, "provider staking / opt-in / key / power-shaping histories x epochs x late channel opening x delayed and batched relay x consumer blocks on the real provider and consumer apps (five units incl. a second Top-N consumer and a small-alphabet unit that reaches several packets in one consumer block); a ledger monitor remembers every set the provider decided; after every consumer block the stored set and the consensus-engine set must equal the set of the last packet received (launch-time set if none), packets must reproduce the provider's stored set and leave in order", "§5 C01"),
 "C07": ("model_checking", T, "double-voting evidence really signed with harness keys: valid evidence for 6 signer keys (provider key, assigned, replaced-within-U, never-assigned, another validator's, unknown) on two consumers sharing a chain id, 11 single-field mutations, unknown consumer, consumer without client; light-client-attack misbehaviour (3 signer subsets + 8 mutations) verified by the real ibc-go light client against the client created at launch; stake with an unbonding entry and a redelegation; key rotation and time steps around the pruning deadline; every submission is judged in every state reached by sequences of submissions / rotations / blocks", "§5 C07"),
 "C08": ("model_checking", T, "reports of downtime / double-signing from two consumers for current, replaced, never-assigned and unknown keys, forged update ids, validator state changes (jail, opt-out, unbonding, stop), acks and VSC deliveries in five units (full, ack loop, throttle, retry, epoch 3); the provider's decision is recomputed from the pre-state as a decision table (who is jailed, amount, jail time, ack bytes, slash acks recorded / carried / cleared, nobody else touched) and the consumer's one-outstanding-report rule is judged on every step", "§5 C08"),
 "C09": ("model_checking", T, "same search as C08: per delivery the meter rule (handled only with meter >= 0, deduction = effective power, bounce changes nothing), per begin-block the allowance / cap / one-replenishment-per-period rules, per trace the window bound, and on the consumer the send discipline (nothing while in flight or bounced-and-not-yet-due, retry only after the delay, head of queue only, handled packet leaves the queue exactly once)", "§5 C09"),
 "C11": ("model_checking", T, "two rich launched consumers with packets in flight; every way of stopping (owner message, timeout of one or several in-flight packets, injected error acknowledgement, send failure on a closed channel), repeated and for both consumers, interleaved with validator-set changes and waits of 2 min / U-5 s / U; from the stop on the stored set, the pending queue and the channel's send sequence must not move and the key assignment / client binding must stay usable until the first block at or past stop+U, then every store entry owned by the consumer except descriptive records must be gone and the channel closed", "§5 C11"),
 "C12": ("model_checking", T, "monitors on the C01 search (id grows by exactly one per epoch block, every id used maps to height+1 of the block that produced it, packet ids leave in increasing order, every consumer height maps to the id of the last update received before it) and on the C08 search (a report carries the id of its infraction height; ids never issued are error-acknowledged and change nothing)", "§5 C12"),
 "C02": ("model_checking", T, "26 consumer power-shaping configurations live side by side on one provider (two families x 6 (M, MaxValidators) settings + an epoch-3 unit); every staking / opt-in / key / jail history up to the bound; after every epoch and at every launch each consumer set is compared with a must/may recomputation from the staking store", "§5 C02"),
 "C03": ("model_checking", T, "ComputeMinPowerInTopN over every power multiset x N in 50..100 against a brute-force exact-integer reference, plus the eligibility search: stored threshold, automatic opt-in, opt-out acceptance and provenance of every opt-in record after every event", "§5 C03"),
 "C04": ("exploration", G, "every (power multiset, percentage 1..100, cap 0..n+1, priority subset) point of the grid is evaluated with closed-form post-conditions; the composition inside ComputeNextValidators is judged in situ on capped consumers of the eligibility search", "§5 C04"),
 "C05": ("model_checking", T, "all interleavings (to the bound) of assignments of 5 keys by 2 validators on a launched and a launching consumer, opt-in with key, validator creation with 3 keys, full unbonding, stop/deletion and time jumps; injectivity of key->validator from the store in every state and a map-based model predicting the forbidden assignments", "§5 C05"),
 "C06": ("model_checking", T, "same search as C05; in every state and at the end of every block each key the model says is current or was replaced less than an unbonding period ago must resolve to its owner (time steps 5 s, U-5 s, U pin the deadline to the block)", "§5 C06"),
 "C10": ("model_checking", T, "all sequences (to the bound) of create/update/remove/opt-in messages with zero, past, future and equal spawn times, chain-id changes (same / other revision), allow-inactive consumers, and 5 s / unbonding-period block steps; phase edges, INITIALIZED <=> spawn time <=> scheduled exactly once, launch timing and success predicate, recorded genesis and client are judged on every transition; three directed fixtures with 205 / 150+100 / 199+2+3 consumers due at once exercise the 200-per-block limit", "§5 C10"),
 "C16": ("model_checking", T, "fees in an allowed and a disallowed denom on a real consumer app, four (fraction, period) settings, closed transfer channel, reward transfer through the real ibc-go transfer keeper and the provider's transfer middleware, late joiner, opt-out, commission changes, allow-list / governance denom registration, payout in BeginBlock; per consumer block the split / send rules, per delivery pool and credit, per provider block the exact-decimal credit accounting, per-validator shares and commissions, eligibility, distribution-account-vs-books, and escrow == minted + in flight in every state", "§5 C16"),
 "C17": ("model_checking", T, "provider OnChanOpenTry over the full grid 7 hop choices x ordering x port x counterparty port x version, OnChanOpenConfirm repeated and for second channels on one client, OnChanOpenInit/Ack on the provider; consumer OnChanOpenInit over 3 hop choices x ordering x counterparty port x version; launches on a pre-existing connection named by two consumers; acceptance is compared with the statement's predicate and the consumer-client-channel relations must be one to one in every reached state; the well-formed handshake runs end to end in the C01 late-open units", "§5 C17"),
 "C18": ("model_checking", T, "schedules = iteration orders of map ranges: every `range` over a map in x/ccv (found with go/types on the current tree, rewritten through `go build -overlay`) is driven by the model checker; every transition of eleven scenario units (vscrelay, slash, eligibility, rewards, evidence, lifecycle, stop, keys) is executed on two independent replicas and once more for every alternative order (all k! for k <= 4 keys) of every map-range occurrence in it, and must land in the identical state; plus a static scan for wall-clock, randomness, goroutines, select, unsafe and %p in the consensus path", "§5 C18"),
 "C19": ("fault_enumeration", T, "part (i): the halt monitor (no BeginBlock/EndBlock error or panic, validator updates acceptable to CometBFT) over the lifecycle, keys, eligibility and provvalset searches; part (ii) (fault injection at external calls) is being added", "§5 C19"),
 "C20": ("model_checking", T, "all sequences (to the bound) of full / partial / cancelling parameter updates on a launched and a registered consumer, stop+deletion, downtime handling and block steps 5 s, U-5 s, U; in-force / pending / schedule records are compared with the timeline rules on every transition and the fraction and jail time actually applied are compared with the parameters in force; a directed fixture with 203 changes due at once exercises the 200-per-block limit", "§5 C20"),
 "C13": ("model_checking", T, "two worlds per node (with / without the operations aimed at consumer X in {1, 10, 0}); eleven consumers so that ids 1 and 10 coexist, both rich (keys incl. replaced ones, opt-ins, three lists, commission, pending infraction change, queued VSC packets, slash acks, reward credit); after every event of every sequence up to the bound every provider-store entry not owned by X must be byte-identical in both worlds", "§5 C13"),
 "C14": ("model_checking", T, "the alphabet is the full message matrix (7 consumers in all five phases and three ownership/Top-N histories x senders owner / previous owner / other user / governance / operator / other operator x 10 update variants incl. owner+Top-N changed together, remove, create, params, reward denoms, four validator-scoped messages); every message is judged in every state reachable by sequences of those messages up to the bound", "§5 C14"),
 "C15": ("model_checking", T, "every sequence of staking / governance / block events up to the bound on 8 (M, MaxValidators) configurations; after every block the recorded set, the engine-side accumulated set, the returned updates and the staking views are compared with an independent recomputation from the staking store", "§5 C15"),
}
ids=[json.loads(l)['id'] for l in open('/verif/properties.jsonl')]
pending = {}
try:
    pending = json.load(open('/verif/pending_reasons.json'))
except Exception:
    pass
m = {
 "version": 1,
 "setup_cmd": "./setup.sh",
 "hooks": {
  "guard": "verif",
  "enable": "no hooks are needed: the harness drives exported keepers/apps of /repo through a Go module with `replace => /repo`; instrumentation goes through `go build -overlay`",
  "baseline_off_cmd": "cd /repo && GOFLAGS=-mod=mod go test -vet=off -count=1 -timeout 25m ./...",
  "source_commits": [],
  "add_only": True
 },
 "engines": [{"name": "mc", "path": "/verif/mc", "serves_properties": sorted(checks), "kind_free_text": "hand-written explicit-state model checker (Go): exhaustive depth-bounded search with iterative deepening and a shared visited table over copy-on-write branches (CacheContext) of the real provider/consumer applications; exhaustive grid units for pure functions"}],
 "checks": [],
 "notes": "Every check rebuilds /verif/mc against /repo's working tree (Go module replace). Known findings: /verif/known_findings.json.",
 "not_applicable": [],
}
for pid in sorted(checks):
    lvl, tech, text, ref = checks[pid]
    m["checks"].append({
      "property_id": pid, "quick_cmd": f"./check {pid} quick", "thorough_cmd": f"./check {pid} thorough",
      "evidence_file": f"/verif/evidence/{pid}.json", "replay_cmd_template": "./check --replay {path}", "engine": "mc",
      "level_claimed": {"category": lvl, "text": text, "design_ref": "DESIGN.md " + ref},
      "level_note": (XNOTE if pid in XPROPS else NOTE) + ("; iteration order inside dependencies (SDK, ibc-go, CometBFT) is not owned; event logs are not compared" if pid == "C18" else ""), "technique": tech})
for pid in ids:
    if pid not in checks:
        m["not_applicable"].append({"property_id": pid, "reason": pending.get(pid, "check not built yet (work in progress); the technique applies, see DESIGN.md §5")})
json.dump(m, open('/verif/MANIFEST.json','w'), indent=1)
print("claimed:", sorted(checks))
