package scen

import (
	"encoding/json"
	"time"

	"verif/mc/engine"
)

func init() {
	registerScenario("faultsearch", func(bz json.RawMessage) (engine.Scenario, error) { return FaultSearch{}, nil })
	register("C19", func(tier string) CheckSpec {
		budget := 280 * time.Second
		d := 0
		if tier == "thorough" {
			budget, d = 20*time.Minute, 2
		}
		us := []Unit{
			Search{Sc: Lifecycle{Variant: "base"}, Depth: 4 + d},
			Search{Sc: Lifecycle{Variant: "bulk:150+100"}, Depth: 3},
			Search{Sc: Keys{Variant: "base"}, Depth: 3 + d},
			Search{Sc: Eligibility{M: 2, MaxVals: 3, Set: "A", Epoch: 1}, Depth: 3 + d},
			Search{Sc: ProvValSet{M: 2, MaxVals: 3}, Depth: 4 + d},
		}
		us = append(us, FaultGrid(),
			Search{Sc: VSCRelay{Variant: "late", Epoch: 1, Delay: 1, Two: true}, Depth: 4 + d},
			Search{Sc: VSCRelay{Variant: "expiry", Epoch: 1, Delay: 1}, Depth: 5 + d},
			Search{Sc: Slash{Variant: "full"}, Depth: 3 + d},
			Search{Sc: Stop{Variant: "base"}, Depth: 4 + d},
			Search{Sc: Rewards{Fraction: "0.75", Period: 2}, Depth: 4 + d},
			Search{Sc: Infraction{Variant: "base"}, Depth: 3 + d},
			Search{Sc: Infraction{Variant: "staggered"}, Depth: 3 + d},
		)
		us = append(us, c19Extra(tier)...)
		// last: it takes whatever budget the other units leave
		us = append(us, Search{Sc: FaultSearch{}, Depth: 4 + d/2})
		return CheckSpec{MustSee: []string{"launch-rolled-back", "allocation-rolled-back", "send-failure-stops-only-that-consumer", "fault:DeleteConsumerChain/channel.ChanCloseInit", "fault:LaunchConsumer/client.CreateClient", "fault-points-in-histories", "blocks-with-fault-points"}, Level: "fault_enumeration", Rule: "part (i): every block event of every listed scenario asserts that BeginBlock/EndBlock return no error, do not panic and return validator updates CometBFT would accept; part (ii): fault enumeration, see units; distinct_nontrivial = distinct states / fault points", Assumptions: commonAssumptions, Budget: budget, Units: us}
	})
}
