// Package engine is a small explicit-state model checker: exhaustive depth-bounded search with
// iterative deepening, a shared visited table and parallel workers that each own their own
// application objects. States are produced by executing the real code (see package env).
package engine

import (
	"fmt"
	"sort"
	"sync"
	"sync/atomic"
	"time"
)

// Violation is one failed oracle.
type Violation struct {
	Property string `json:"property"`
	// Key identifies the kind of failure (oracle + distinguishing facts, no volatile data); it is
	// what known-findings entries match on and what de-duplicates reports.
	Key string `json:"key"`
	Msg string `json:"msg"`
}

// Node is a scenario-defined world state. A Node must not be mutated once returned.
type Node any

// Worker owns application objects; Nodes of one worker must not be handed to another.
type Worker interface {
	Root() Node
	// Enabled lists the events enabled in n in canonical (simplest-first) order.
	Enabled(n Node) []string
	// Apply executes ev on a branch of n. A nil Node means the event turned out to be a no-op /
	// not applicable (no transition is counted, nothing is explored below).
	Apply(n Node, ev string) (Node, []Violation)
	Hash(n Node) [32]byte
}

// RootChecker is optionally implemented by workers whose fixture construction already evaluates
// oracles (genesis, prefix blocks); those violations are reported with the empty trace.
type RootChecker interface{ RootViolations() []Violation }

// Scenario builds workers. NewWorker must be deterministic: the same trace of event names
// produces the same states on every worker.
type Scenario interface {
	Name() string
	Params() map[string]any
	NewWorker(stats *Stats) (Worker, error)
}

// Stats counts distinct observed outcomes (vacuity guard) — thread safe.
type Stats struct {
	mu sync.Mutex
	m  map[string]int64
}

func NewStats() *Stats { return &Stats{m: map[string]int64{}} }

func (s *Stats) Count(key string) {
	s.mu.Lock()
	s.m[key]++
	s.mu.Unlock()
}

func (s *Stats) Snapshot() map[string]int64 {
	s.mu.Lock()
	defer s.mu.Unlock()
	o := make(map[string]int64, len(s.m))
	for k, v := range s.m {
		o[k] = v
	}
	return o
}

func (s *Stats) Get(key string) int64 {
	s.mu.Lock()
	defer s.mu.Unlock()
	return s.m[key]
}

// Found is a violation with the trace that reaches it.
type Found struct {
	Violation
	Scenario string         `json:"scenario"`
	Params   map[string]any `json:"params"`
	Trace    []string       `json:"trace"`
}

type Config struct {
	MaxDepth      int
	Workers       int
	Deadline      time.Time // zero = none
	MaxViolations int       // stop after this many distinct violation keys (default 8)
	SplitLevel    int       // prefixes of this length become parallel jobs (default 2)
}

type Result struct {
	Scenario       string
	Params         map[string]any
	States         int64 // distinct canonical states seen (all depths)
	Transitions    int64 // events executed in the deepest completed iteration
	TotalExecuted  int64 // events executed over all iterations
	Attempts       int64 // events attempted over all iterations, including rejected / not-applicable ones (each is judged)
	MaximalTraces  int64 // traces that reached the depth bound or a state with nothing new
	DepthCompleted int
	DepthTarget    int
	Exhaustive     bool // the target depth bound was completed
	Found          []Found
	Samples        [][]string
	Outcomes       map[string]int64
	ReplayChecked  int // sample traces re-executed on a second worker with identical hashes
	Wall           time.Duration
}

type visited struct {
	shards [64]struct {
		mu sync.Mutex
		m  map[[32]byte]int8
	}
}

func newVisited() *visited {
	v := &visited{}
	for i := range v.shards {
		v.shards[i].m = map[[32]byte]int8{}
	}
	return v
}

// claim returns true if the state must be (re-)expanded with the given remaining depth.
func (v *visited) claim(h [32]byte, remaining int) (expand, isNew bool) {
	s := &v.shards[h[0]&63]
	s.mu.Lock()
	defer s.mu.Unlock()
	old, ok := s.m[h]
	if ok && int(old) >= remaining {
		return false, false
	}
	s.m[h] = int8(remaining)
	return true, !ok
}

func (v *visited) size() int64 {
	var n int64
	for i := range v.shards {
		v.shards[i].mu.Lock()
		n += int64(len(v.shards[i].m))
		v.shards[i].mu.Unlock()
	}
	return n
}

type search struct {
	sc      Scenario
	cfg     Config
	vis     *visited
	trans   atomic.Int64
	tries   atomic.Int64
	maximal atomic.Int64
	stop    atomic.Bool
	timeup  atomic.Bool
	mu      sync.Mutex
	found   map[string]Found
	samples [][]string
	covered map[string]bool
}

func (s *search) report(vs []Violation, trace []string) {
	if len(vs) == 0 {
		return
	}
	s.mu.Lock()
	defer s.mu.Unlock()
	for _, v := range vs {
		k := v.Property + "|" + v.Key
		if old, ok := s.found[k]; ok && len(old.Trace) <= len(trace) {
			continue
		}
		s.found[k] = Found{Violation: v, Scenario: s.sc.Name(), Params: s.sc.Params(), Trace: append([]string{}, trace...)}
	}
	if len(s.found) >= s.cfg.MaxViolations {
		s.stop.Store(true)
	}
}

// sample keeps the first six maximal traces plus every later one that contains an event no kept
// sample contains yet (so that the samples — which are also the traces replayed on a second worker
// and through the full ABCI stack — cover the alphabet), up to 48.
func (s *search) sample(trace []string) {
	s.mu.Lock()
	defer s.mu.Unlock()
	if s.covered == nil {
		s.covered = map[string]bool{}
	}
	fresh := false
	for _, ev := range trace {
		if !s.covered[ev] {
			fresh = true
		}
	}
	if len(s.samples) < 6 || (fresh && len(s.samples) < 48) {
		s.samples = append(s.samples, append([]string{}, trace...))
		for _, ev := range trace {
			s.covered[ev] = true
		}
	}
}

func (s *search) halted() bool {
	if s.stop.Load() {
		return true
	}
	if !s.cfg.Deadline.IsZero() && time.Now().After(s.cfg.Deadline) {
		s.timeup.Store(true)
		s.stop.Store(true)
		return true
	}
	return false
}

func (s *search) dfs(w Worker, n Node, remaining int, trace []string) {
	if remaining == 0 {
		s.maximal.Add(1)
		s.sample(trace)
		return
	}
	expanded := false
	for _, ev := range w.Enabled(n) {
		if s.halted() {
			return
		}
		child, vs := w.Apply(n, ev)
		s.tries.Add(1)
		t2 := append(trace, ev)
		s.report(vs, t2)
		if child == nil {
			continue
		}
		s.trans.Add(1)
		expand, _ := s.vis.claim(w.Hash(child), remaining-1)
		if !expand {
			continue
		}
		expanded = true
		s.dfs(w, child, remaining-1, t2)
	}
	if !expanded {
		s.maximal.Add(1)
	}
}

// Replay executes a trace from the root and returns the nodes' hashes and all violations.
func Replay(w Worker, trace []string) (hashes [][32]byte, vs []Violation, err error) {
	n := w.Root()
	for i, ev := range trace {
		ok := false
		for _, e := range w.Enabled(n) {
			if e == ev {
				ok = true
				break
			}
		}
		if !ok {
			return hashes, vs, fmt.Errorf("step %d: event %q is not enabled", i, ev)
		}
		c, v := w.Apply(n, ev)
		vs = append(vs, v...)
		if c == nil {
			return hashes, vs, fmt.Errorf("step %d: event %q produced no successor", i, ev)
		}
		n = c
		hashes = append(hashes, w.Hash(n))
	}
	return hashes, vs, nil
}

// Run explores the scenario exhaustively up to cfg.MaxDepth.
func Run(sc Scenario, cfg Config) (*Result, error) {
	start := time.Now()
	if cfg.Workers <= 0 {
		cfg.Workers = 1
	}
	if cfg.MaxViolations == 0 {
		cfg.MaxViolations = 8
	}
	if cfg.SplitLevel == 0 {
		cfg.SplitLevel = 2
	}
	stats := NewStats()
	workers := make([]Worker, cfg.Workers)
	var wg sync.WaitGroup
	errs := make([]error, cfg.Workers)
	for i := range workers {
		wg.Add(1)
		go func(i int) {
			defer wg.Done()
			workers[i], errs[i] = sc.NewWorker(stats)
		}(i)
	}
	wg.Wait()
	for _, e := range errs {
		if e != nil {
			return nil, e
		}
	}
	res := &Result{Scenario: sc.Name(), Params: sc.Params(), DepthTarget: cfg.MaxDepth}
	s := &search{sc: sc, cfg: cfg, found: map[string]Found{}}
	s.vis = newVisited()
	if rc, ok := workers[0].(RootChecker); ok {
		s.report(rc.RootViolations(), nil)
	}
	var total int64
	for d := 1; d <= cfg.MaxDepth; d++ {
		s.trans.Store(0)
		s.maximal.Store(0)
		s.mu.Lock()
		s.samples = nil
		s.covered = nil
		s.mu.Unlock()
		// enumerate job prefixes of length min(SplitLevel, d) on worker 0
		type job struct{ trace []string }
		var jobs []job
		split := cfg.SplitLevel
		if split >= d {
			split = d - 1
		}
		var gen func(n Node, trace []string, level int)
		w0 := workers[0]
		gen = func(n Node, trace []string, level int) {
			if level == split {
				jobs = append(jobs, job{append([]string{}, trace...)})
				return
			}
			for _, ev := range w0.Enabled(n) {
				if s.halted() {
					return
				}
				c, vs := w0.Apply(n, ev)
				s.tries.Add(1)
				t2 := append(append([]string{}, trace...), ev)
				s.report(vs, t2)
				if c == nil {
					continue
				}
				s.trans.Add(1)
				expand, _ := s.vis.claim(w0.Hash(c), d-level-1)
				if !expand {
					continue
				}
				gen(c, t2, level+1)
			}
		}
		gen(w0.Root(), nil, 0)
		ch := make(chan job, len(jobs))
		for _, j := range jobs {
			ch <- j
		}
		close(ch)
		for i := range workers {
			wg.Add(1)
			go func(w Worker) {
				defer wg.Done()
				for j := range ch {
					if s.halted() {
						return
					}
					n := w.Root()
					ok := true
					for _, ev := range j.trace {
						c, _ := w.Apply(n, ev)
						if c == nil {
							ok = false
							break
						}
						n = c
					}
					if !ok {
						s.report([]Violation{{Property: "HARNESS", Key: "nondeterministic-prefix", Msg: fmt.Sprintf("prefix %v not replayable on second worker", j.trace)}}, j.trace)
						continue
					}
					s.dfs(w, n, d-len(j.trace), append([]string{}, j.trace...))
				}
			}(workers[i])
		}
		wg.Wait()
		total += s.trans.Load()
		if s.stop.Load() {
			break
		}
		res.DepthCompleted = d
		res.Transitions = s.trans.Load()
		res.MaximalTraces = s.maximal.Load()
		res.Samples = s.samples
	}
	res.TotalExecuted = total
	res.Attempts = s.tries.Load()
	res.States = s.vis.size()
	res.Exhaustive = res.DepthCompleted == cfg.MaxDepth
	for _, f := range s.found {
		res.Found = append(res.Found, f)
	}
	sort.Slice(res.Found, func(i, j int) bool {
		if len(res.Found[i].Trace) != len(res.Found[j].Trace) {
			return len(res.Found[i].Trace) < len(res.Found[j].Trace)
		}
		return res.Found[i].Key < res.Found[j].Key
	})
	// determinism of the harness: sample traces give identical hashes on two different workers
	if len(workers) > 1 {
		for _, tr := range res.Samples {
			h0, _, e0 := Replay(workers[0], tr)
			h1, _, e1 := Replay(workers[1], tr)
			same := e0 == nil && e1 == nil && len(h0) == len(h1)
			for i := 0; same && i < len(h0); i++ {
				same = h0[i] == h1[i]
			}
			if !same {
				res.Found = append(res.Found, Found{Violation: Violation{Property: "HARNESS", Key: "replay-divergence",
					Msg: fmt.Sprintf("trace gives different state hashes on two workers (%v / %v)", e0, e1)}, Scenario: sc.Name(), Params: sc.Params(), Trace: tr})
			} else {
				res.ReplayChecked++
			}
		}
	}
	res.Outcomes = stats.Snapshot()
	res.Wall = time.Since(start)
	return res, nil
}
