package scen

import (
	"fmt"
	ibcexported "github.com/cosmos/ibc-go/v10/modules/core/exported"
	"sort"
	"strings"
	"time"

	sdk "github.com/cosmos/cosmos-sdk/types"

	"verif/mc/engine"
	"verif/mc/env"

	providertypes "github.com/cosmos/interchain-security/v7/x/ccv/provider/types"
)

// VSCRelay is the C01 / C12 scenario: provider staking / opt-in / key histories, epochs, late
// channel opening, batched and delayed relay, consumer blocks; a ledger monitor remembers every
// validator set the provider produced.
type VSCRelay struct {
	Variant string // "open": channel opened in the prefix; "late": opening is an event; "latebatch": late + a queued two-validator update + the small alphabet
	Epoch   int64
	Delay   int64
	Two     bool // second consumer (Top-N) alongside
}

func (c VSCRelay) Name() string { return "vscrelay" }
func (c VSCRelay) Params() map[string]any {
	return map[string]any{"Variant": c.Variant, "Epoch": c.Epoch, "Delay": c.Delay, "Two": c.Two}
}

// consLedger is the monitor memory for one consumer.
type consLedger struct {
	Sets      map[uint64]env.ValSet // vsc id -> full set the provider decided (id 0 = launch-time set)
	LastID    uint64                // id of the last packet the provider produced
	Delivered uint64                // id of the last packet delivered to the consumer (0 = none)
	HeightID  map[int64]uint64      // consumer height -> expected HeightValsetUpdateID
	AtStart   uint64                // id of the last packet delivered in blocks before the current one
	SentSeq   uint64                // last IBC sequence seen leaving the provider for this consumer
	SentIDs   []uint64              // vsc ids in the order they left the provider
	Halted    bool
}

func (l consLedger) clone() consLedger {
	o := l
	o.Sets = make(map[uint64]env.ValSet, len(l.Sets))
	for k, v := range l.Sets {
		o.Sets[k] = v
	}
	o.HeightID = make(map[int64]uint64, len(l.HeightID))
	for k, v := range l.HeightID {
		o.HeightID[k] = v
	}
	o.SentIDs = append([]uint64{}, l.SentIDs...)
	return o
}

type vrNode struct {
	*XNode
	Led     map[string]consLedger
	VscH    map[uint64]int64 // provider: vsc id -> expected mapped height
	LastVsc uint64           // provider's ValidatorSetUpdateId after the last block
}

func (n *vrNode) clone() *vrNode {
	o := &vrNode{XNode: n.XNode.Clone(), Led: map[string]consLedger{}, VscH: map[uint64]int64{}, LastVsc: n.LastVsc}
	for k, v := range n.Led {
		o.Led[k] = v.clone()
	}
	for k, v := range n.VscH {
		o.VscH[k] = v
	}
	return o
}

func (n *vrNode) digest() string {
	var b strings.Builder
	for _, cid := range sortedKeys(n.Led) {
		l := n.Led[cid]
		fmt.Fprintf(&b, "%s:%d/%d/%d/%d/%v|%s|", cid, l.LastID, l.Delivered, l.AtStart, l.SentSeq, l.SentIDs, setDigest(l.Sets))
		hs := make([]int64, 0, len(l.HeightID))
		for h := range l.HeightID {
			hs = append(hs, h)
		}
		sort.Slice(hs, func(i, j int) bool { return hs[i] < hs[j] })
		for _, h := range hs {
			fmt.Fprintf(&b, "%d>%d,", h, l.HeightID[h])
		}
	}
	return b.String()
}

type vrWorker struct {
	cfg    VSCRelay
	w      *XWorld
	p      *env.Provider
	tab    Table
	root   *vrNode
	stats  *engine.Stats
	rootVs []V
	cons   []string
	k1     env.ConsKey
}

func (c VSCRelay) NewWorker(stats *engine.Stats) (engine.Worker, error) {
	p, err := env.NewProvider(env.ProviderCfg{SelfTokens: []int64{3 * unit, 2 * unit, 1 * unit}, Users: 1, BlocksPerEpoch: c.Epoch, MutateGenesis: shortJail})
	if err != nil {
		return nil, err
	}
	xw := &XWorld{P: p, CA: env.NewConsumerApp(), Stats: stats, Delay: c.Delay}
	w := &vrWorker{cfg: c, w: xw, p: p, stats: stats, k1: env.NewConsKey("vr-k1")}
	st := p.Root.Branch()
	A := p.Users[0].Addr.String()
	must := func(m sdk.Msg) error {
		if r := st.Deliver(m); r.Err != nil {
			return fmt.Errorf("%T: %w", m, r.Err)
		}
		return nil
	}
	ci := env.ConsumerInit{Spawn: st.Time(), Unbonding: 900 * time.Second}
	if c.Variant == "batch" || c.Variant == "expiry" {
		// the consumer prunes historical info after two blocks: whatever else is pruned with it shows in
		// the height -> update-id history the monitor keeps checking for every past height
		ci.Historical = 2
	}
	if err := must(env.MsgCreateConsumer(A, "cons-x", ci.Params("cons-x"), &providertypes.PowerShapingParameters{ValidatorsPowerCap: 0})); err != nil {
		return nil, err
	}
	w.cons = []string{"0"}
	for _, vi := range []int{0, 1} {
		if err := must(env.MsgOptIn(p.Vals[vi], "0", nil)); err != nil {
			return nil, err
		}
	}
	if c.Two {
		if err := must(env.MsgCreateConsumer(p.GovAddr, "cons-y", ci.Params("cons-y"), nil)); err != nil {
			return nil, err
		}
		if err := must(&providertypes.MsgUpdateConsumer{Owner: p.GovAddr, ConsumerId: "1", PowerShapingParameters: &providertypes.PowerShapingParameters{Top_N: 66, ValidatorsPowerCap: 60}}); err != nil {
			return nil, err
		}
		w.cons = append(w.cons, "1")
	}
	n := &vrNode{XNode: &XNode{P: st, C: map[string]env.State{}, L: map[string]env.Link{}}, Led: map[string]consLedger{}, VscH: map[uint64]int64{}}
	n.LastVsc = p.K.GetValidatorSetUpdateId(st.Ctx)
	w.root = n
	// first block boundary: launches
	x, vs := w.pblock(n, 0)
	w.rootVs = append(w.rootVs, vs...)
	if x == nil {
		return nil, fmt.Errorf("prefix block failed: %v", vs)
	}
	n = x.(*vrNode)
	for _, cid := range w.cons {
		if p.K.GetConsumerPhase(n.P.Ctx, cid) != providertypes.CONSUMER_PHASE_LAUNCHED {
			return nil, fmt.Errorf("fixture: consumer %s not launched", cid)
		}
		vals, err := xw.Boot(n.XNode, cid)
		if err != nil {
			return nil, fmt.Errorf("boot %s: %w", cid, err)
		}
		// launch-time set: recorded genesis == stored set == what the consumer's InitChain returned
		gen, _ := p.K.GetConsumerGenesis(n.P.Ctx, cid)
		launch := applyUpdates(env.ValSet{}, gen.Provider.InitialValSet)
		cur, _ := consumerSet(p, n.P.Ctx, cid)
		if !launch.Equal(cur) {
			w.rootVs = append(w.rootVs, vf("C01", "launch-set-vs-genesis", "consumer %s: genesis initial set %v, provider's stored set %v", cid, launch, cur))
		}
		if got := applyUpdates(env.ValSet{}, vals); !got.Equal(launch) {
			w.rootVs = append(w.rootVs, vf("C01", "launch-set-vs-initchain", "consumer %s: InitChain returned %v, provider decided %v", cid, got, launch))
		}
		led := consLedger{Sets: map[uint64]env.ValSet{0: launch}, HeightID: map[int64]uint64{}}
		n.Led[cid] = led
		w.rootVs = append(w.rootVs, w.checkConsumer(n, cid, "boot")...)
	}
	if c.Variant == "open" || c.Variant == "batch" || c.Variant == "expiry" {
		for _, cid := range w.cons {
			if err := xw.Open(n.XNode, cid); err != nil {
				return nil, fmt.Errorf("open %s: %w", cid, err)
			}
		}
	}
	w.root = n
	w.build()
	if c.Variant == "latebatch" {
		// one update touching two validators is already queued while the channel does not exist yet
		for _, ev := range []string{"delegate(v1,+1)", "undelegate(v0,-1)", "P.block"} {
			nn, vs := w.tab.Apply(w.root, ev)
			w.rootVs = append(w.rootVs, vs...)
			if nn == nil {
				return nil, fmt.Errorf("latebatch prefix: %s failed", ev)
			}
			w.root = nn.(*vrNode)
		}
		if q := p.K.GetPendingVSCPackets(w.root.P.Ctx, "0"); len(q) != 1 || len(q[0].ValidatorUpdates) != 2 {
			return nil, fmt.Errorf("latebatch prefix: queued packets %v", q)
		}
	}
	return w, nil
}

func (w *vrWorker) RootViolations() []V            { return w.rootVs }
func (w *vrWorker) Root() engine.Node              { return w.root }
func (w *vrWorker) Enabled(n engine.Node) []string { return w.tab.Names() }
func (w *vrWorker) Apply(n engine.Node, ev string) (engine.Node, []V) {
	return w.tab.Apply(n, ev)
}
func (w *vrWorker) Hash(n engine.Node) [32]byte {
	x := n.(*vrNode)
	return w.w.hashNode(x.XNode, x.digest())
}

func (w *vrWorker) ptx(name string, mk func(x *vrNode) sdk.Msg) {
	w.tab.Add(name, func(n engine.Node) (engine.Node, []V) {
		x := n.(*vrNode)
		msg := mk(x)
		if msg == nil {
			return nil, nil
		}
		c := x.clone()
		c.touchP()
		if r := c.P.Deliver(msg); r.Err != nil {
			debugOnce("vscrelay:"+name, r.Err)
			return nil, nil
		}
		return c, nil
	})
}

func (w *vrWorker) build() {
	p := w.p
	w.tab.Add("P.block", func(n engine.Node) (engine.Node, []V) { return w.pblock(n.(*vrNode), 0) })
	for _, cid := range w.cons {
		cid := cid
		w.tab.Add("C"+cid+".block", func(n engine.Node) (engine.Node, []V) { return w.cblock(n.(*vrNode), cid) })
		w.tab.Add("deliver(P->C"+cid+",1)", func(n engine.Node) (engine.Node, []V) { return w.deliver(n.(*vrNode), cid, 1) })
		w.tab.Add("deliver(P->C"+cid+",all)", func(n engine.Node) (engine.Node, []V) { return w.deliver(n.(*vrNode), cid, 1000) })
		if w.cfg.Variant == "late" || w.cfg.Variant == "latebatch" {
			w.tab.Add("open(C"+cid+")", func(n engine.Node) (engine.Node, []V) {
				x := n.(*vrNode)
				if x.L[cid].Stage != 0 {
					return nil, nil
				}
				c := x.clone()
				if err := w.w.Open(c.XNode, cid); err != nil {
					return nil, []V{vf("C17", "well-formed-handshake-rejected", "opening the CCV channel of consumer %s failed: %v", cid, err)}
				}
				w.stats.Count("late-open")
				return c, nil
			})
		}
	}
	if w.cfg.Variant == "expiry" {
		// nobody relays for longer than the trusting periods: both light clients expire
		w.tab.Add("wait(U,no-relay)", func(n engine.Node) (engine.Node, []V) {
			x := n.(*vrNode)
			c := x.clone()
			pr, crs := w.w.Wait(c.XNode, p.Cfg.Unbonding, false)
			vs := haltViolation("provider", pr)
			for _, r := range crs {
				vs = append(vs, haltViolation("consumer", r)...)
			}
			if pr.Halt() != "" {
				return nil, vs
			}
			// bookkeeping the two block handlers would have done
			vs = append(vs, w.updateLedger(c)...)
			for _, cid := range w.cons {
				led := c.Led[cid]
				led.AtStart = led.Delivered
				led.HeightID[c.C[cid].Height()] = led.AtStart
				c.Led[cid] = led
			}
			w.stats.Count("clients-expired")
			return c, vs
		})
	}
	if w.cfg.Variant == "expiry" {
		// governance recovers the expired light clients (what MsgRecoverClient leaves behind: an active
		// client with a fresh consensus state); queued updates must then flow in order
		w.tab.Add("recover(clients)", func(n engine.Node) (engine.Node, []V) {
			x := n.(*vrNode)
			pk, ck := p.PApp.IBCKeeper, w.w.CA.CApp.IBCKeeper
			c := x.clone()
			did := false
			for _, cid := range w.cons {
				l := c.L[cid]
				cs, ok := c.C[cid]
				if !ok || l.PClient == "" {
					continue
				}
				if pk.ClientKeeper.GetClientStatus(c.P.Ctx, l.PClient) == ibcexported.Expired {
					c.touchP()
					ps := c.P
					if env.ForceRefreshClient(&ps, pk, l.PClient, cs.Height(), cs.Time()) {
						did = true
					}
					c.P = ps
				}
				if l.CClient != "" && ck.ClientKeeper.GetClientStatus(cs.Ctx, l.CClient) == ibcexported.Expired {
					c.touchC(cid)
					cs = c.C[cid]
					if env.ForceRefreshClient(&cs, ck, l.CClient, c.P.Height(), c.P.Time()) {
						did = true
					}
					c.C[cid] = cs
				}
			}
			if !did {
				return nil, nil
			}
			w.stats.Count("clients-recovered")
			return c, nil
		})
	}
	if w.cfg.Variant == "batch" || w.cfg.Variant == "expiry" || w.cfg.Variant == "latebatch" {
		// small alphabet aimed at several packets landing in one consumer block
		w.ptx("delegate(v1,+1)", func(*vrNode) sdk.Msg { return env.MsgDelegate(p.Delegator, p.Vals[1], unit) })
		w.ptx("undelegate(v0,-1)", func(*vrNode) sdk.Msg { return env.MsgUndelegate(p.Vals[0].Oper, p.Vals[0], unit) })
		w.ptx("optout(v1,c0)", func(*vrNode) sdk.Msg { return env.MsgOptOut(p.Vals[1], "0") })
		w.ptx("optin(v1,c0)", func(x *vrNode) sdk.Msg {
			if p.K.IsOptedIn(x.P.Ctx, "0", p.Vals[1].PAddr()) {
				return nil
			}
			return env.MsgOptIn(p.Vals[1], "0", nil)
		})
		w.ptx("assign(v1,c0,k1)", func(*vrNode) sdk.Msg { return env.MsgAssignKey(p.Vals[1], "0", w.k1) })
		return
	}
	for i := 0; i < 3; i++ {
		v := p.Vals[i]
		w.ptx(fmt.Sprintf("delegate(v%d,+1)", i), func(*vrNode) sdk.Msg { return env.MsgDelegate(p.Delegator, v, unit) })
	}
	for i := 0; i < 3; i++ {
		v := p.Vals[i]
		w.ptx(fmt.Sprintf("undelegate(v%d,-1)", i), func(*vrNode) sdk.Msg { return env.MsgUndelegate(v.Oper, v, unit) })
	}
	w.ptx("redelegate(v0->v1,1)", func(*vrNode) sdk.Msg { return env.MsgRedelegate(p.Vals[0].Oper, p.Vals[0], p.Vals[1], unit) })
	w.ptx("assign(v0,c0,k1)", func(*vrNode) sdk.Msg { return env.MsgAssignKey(p.Vals[0], "0", w.k1) })
	w.ptx("optout(v1,c0)", func(*vrNode) sdk.Msg { return env.MsgOptOut(p.Vals[1], "0") })
	w.ptx("optin(v2,c0)", func(x *vrNode) sdk.Msg {
		if p.K.IsOptedIn(x.P.Ctx, "0", p.Vals[2].PAddr()) {
			return nil
		}
		return env.MsgOptIn(p.Vals[2], "0", nil)
	})
	w.ptx("update(c0,cap 50%)", func(x *vrNode) sdk.Msg {
		ps, err := p.K.GetConsumerPowerShapingParameters(x.P.Ctx, "0")
		if err != nil || ps.ValidatorsPowerCap != 0 {
			return nil
		}
		ps.ValidatorsPowerCap = 50
		return &providertypes.MsgUpdateConsumer{Owner: p.Users[0].Addr.String(), ConsumerId: "0", PowerShapingParameters: &ps}
	})
	w.tab.Add("jail(v0)", func(n engine.Node) (engine.Node, []V) {
		c := n.(*vrNode).clone()
		c.touchP()
		if err := c.P.JailDowntime(p, p.Vals[0]); err != nil {
			return nil, nil
		}
		return c, nil
	})
}

// pblock: one provider block; the ledger learns the sets the provider decided.
func (w *vrWorker) pblock(x *vrNode, extra time.Duration) (engine.Node, []V) {
	c := x.clone()
	p := w.p
	var vs []V
	endedH := c.P.Height()
	epoch := endedH%w.cfg.Epoch == 0
	preVsc := p.K.GetValidatorSetUpdateId(c.P.Ctx)
	prePending := map[string]int{}
	for _, cid := range w.cons {
		prePending[cid] = len(p.K.GetPendingVSCPackets(c.P.Ctx, cid))
	}
	r := w.w.PBlock(c.XNode, extra, func(s *env.State, r *env.BlockResult) {
		ctx := s.Ctx
		// C12: the id grows by exactly one in epoch blocks and not otherwise
		post := p.K.GetValidatorSetUpdateId(ctx)
		want := preVsc
		if epoch {
			want++
		}
		if post != want {
			vs = append(vs, vf("C12", "vsc-id-step", "provider block %d (epoch=%v): validator-set update id %d -> %d", endedH, epoch, preVsc, post))
		}
		// the id used by this block's update maps to height+1
		if epoch {
			c.VscH[preVsc] = endedH + 1
		}
		for id, h := range c.VscH {
			got, found := p.K.GetValsetUpdateBlockHeight(ctx, id)
			if !found || int64(got) != h {
				vs = append(vs, vf("C12", "vsc-id-height", "update id %d was produced in block %d: mapped height %d (found=%v), expected %d", id, h-1, got, found, h))
			}
		}
	})
	vs = append(vs, haltViolation("provider", r)...)
	if r.Halt() != "" {
		return nil, vs
	}
	vs = append(vs, w.updateLedger(c)...)
	return c, vs
}

// updateLedger teaches the monitor the sets the provider decided in the block(s) that just ended:
// packets that left on the channel plus packets still pending in the store.
func (w *vrWorker) updateLedger(c *vrNode) []V {
	p := w.p
	var vs []V
	c.LastVsc = p.K.GetValidatorSetUpdateId(c.P.Ctx)
	// ledger: new packets for each launched consumer = packets sent in this block + still pending
	for _, cid := range w.cons {
		led, ok := c.Led[cid]
		if !ok {
			continue
		}
		ctx := c.P.Ctx
		if p.K.GetConsumerPhase(ctx, cid) != providertypes.CONSUMER_PHASE_LAUNCHED {
			led.Halted = true
			c.Led[cid] = led
			continue
		}
		cur, err := consumerSet(p, ctx, cid)
		if err != nil {
			vs = append(vs, vf("C01", "set-unreadable", "%v", err))
			continue
		}
		type pk struct {
			id   uint64
			data []byte
			seq  uint64
			sent bool
		}
		var news []pk
		l := c.L[cid]
		for _, q := range l.P2C.Packets {
			if q.P.Sequence > led.SentSeq {
				d, err := decodeVSC(q.P.Data)
				if err != nil {
					vs = append(vs, vf("C01", "undecodable-packet", "consumer %s: packet seq %d does not decode: %v", cid, q.P.Sequence, err))
					continue
				}
				if q.P.Sequence != led.SentSeq+1 {
					vs = append(vs, vf("C01", "ibc-sequence-gap", "consumer %s: packet sequence %d after %d", cid, q.P.Sequence, led.SentSeq))
				}
				led.SentSeq = q.P.Sequence
				led.SentIDs = append(led.SentIDs, d.ValsetUpdateId)
				news = append(news, pk{id: d.ValsetUpdateId, data: q.P.Data, seq: q.P.Sequence, sent: true})
			}
		}
		for _, d := range p.K.GetPendingVSCPackets(ctx, cid) {
			news = append(news, pk{id: d.ValsetUpdateId, data: d.GetBytes()})
		}
		sort.SliceStable(news, func(i, j int) bool { return news[i].id < news[j].id })
		// every id above the last one the ledger knows is new
		prev := led.Sets[led.LastID]
		for _, q := range news {
			if q.id <= led.LastID {
				continue
			}
			d, err := decodeVSC(q.data)
			if err != nil {
				continue
			}
			next := applyUpdates(prev, d.ValidatorUpdates)
			led.Sets[q.id] = next
			led.LastID = q.id
			prev = next
			w.stats.Count("vsc-packet-produced")
		}
		if !prev.Equal(cur) {
			vs = append(vs, vf("C01", "packets-do-not-reproduce-set", "consumer %s: launch set + the updates of the packets produced so far give %v, the provider's stored set is %v (last id %d)", cid, prev, cur, led.LastID))
		}
		// order of what left the provider: strictly increasing ids, nothing skipped that was pending before
		for i := 1; i < len(led.SentIDs); i++ {
			if led.SentIDs[i] <= led.SentIDs[i-1] {
				vs = append(vs, vf("C12", "packet-ids-not-increasing", "consumer %s: packets left the provider with ids %v", cid, led.SentIDs))
			}
		}
		if len(p.K.GetPendingVSCPackets(ctx, cid)) > 0 {
			w.stats.Count("packets-pending-after-block")
		}
		c.Led[cid] = led
	}
	return vs
}

func (w *vrWorker) deliver(x *vrNode, cid string, k int) (engine.Node, []V) {
	if _, ok := x.C[cid]; !ok || len(x.L[cid].P2C.Packets) == 0 {
		return nil, nil
	}
	c := x.clone()
	got, res := w.w.DeliverP2C(c.XNode, cid, k)
	if len(got) == 0 || (k > 1 && len(got) == 1) {
		return nil, nil // nothing relayable, or the same as deliver(...,1)
	}
	var vs []V
	led := c.Led[cid]
	for i, q := range got {
		d, _ := decodeVSC(q.P.Data)
		if res[i].Panic != "" {
			vs = append(vs, vf("C19", "panic:consumer-recv", "consumer %s panicked receiving VSC packet %d: %s", cid, d.ValsetUpdateId, res[i].Panic))
		}
		if !res[i].Success {
			vs = append(vs, vf("C01", "vsc-packet-error-ack", "consumer %s answered VSC packet %d with an error acknowledgement %s", cid, d.ValsetUpdateId, res[i].Ack))
		}
		if d.ValsetUpdateId <= led.Delivered {
			vs = append(vs, vf("C01", "delivered-out-of-order", "consumer %s: packet id %d delivered after %d", cid, d.ValsetUpdateId, led.Delivered))
		}
		led.Delivered = d.ValsetUpdateId
	}
	if len(got) > 1 {
		w.stats.Count("batched-delivery")
	}
	c.Led[cid] = led
	return c, vs
}

func (w *vrWorker) cblock(x *vrNode, cid string) (engine.Node, []V) {
	if _, ok := x.C[cid]; !ok {
		return nil, nil
	}
	c := x.clone()
	var vs []V
	led := c.Led[cid]
	r := w.w.CBlock(c.XNode, cid, 0, func(s *env.State, r *env.BlockResult) {
		vs = append(vs, w.checkSets(led, cid, s, "end-of-block")...)
	})
	vs = append(vs, haltViolation("consumer", r)...)
	if r.Halt() != "" {
		return nil, vs
	}
	led.AtStart = led.Delivered
	led.HeightID[c.C[cid].Height()] = led.AtStart
	c.Led[cid] = led
	vs = append(vs, w.checkConsumer(c, cid, "block")...)
	w.stats.Count(fmt.Sprintf("consumer-block-with-set:%d", led.Delivered))
	return c, vs
}

// checkSets (C01): after every consumer block the stored set and the consensus engine's set equal the
// set of the most recent packet received (launch-time set if none).
func (w *vrWorker) checkSets(led consLedger, cid string, s *env.State, when string) []V {
	var vs []V
	want, ok := led.Sets[led.Delivered]
	if !ok {
		return []V{vf("C01", "adopted-unknown-id", "consumer %s received packet id %d which the provider never produced", cid, led.Delivered)}
	}
	stored := w.w.CA.CCVals(s.Ctx)
	if !stored.Equal(want) {
		vs = append(vs, vf("C01", "consumer-stored-set", "consumer %s (%s, height %d): stored validator set %v, the provider's set for id %d is %v", cid, when, s.Height(), stored, led.Delivered, want))
	}
	if !s.Engine.Equal(want) {
		vs = append(vs, vf("C01", "consumer-engine-set", "consumer %s (%s, height %d): consensus engine holds %v, the provider's set for id %d is %v", cid, when, s.Height(), s.Engine, led.Delivered, want))
	}
	return vs
}

// checkConsumer (C12, consumer side): every block height maps to the id of the latest update
// received before that block.
func (w *vrWorker) checkConsumer(n *vrNode, cid string, when string) []V {
	var vs []V
	s := n.C[cid]
	led := n.Led[cid]
	k := w.w.CA.K
	h := s.Height()
	if got := k.GetHeightValsetUpdateID(s.Ctx, uint64(h)); got != led.AtStart {
		vs = append(vs, vf("C12", "height-to-id", "consumer %s in block %d (%s): height maps to update id %d, the last update received before this block is %d", cid, h, when, got, led.AtStart))
	}
	for hh, id := range led.HeightID {
		if got := k.GetHeightValsetUpdateID(s.Ctx, uint64(hh)); got != id {
			vs = append(vs, vf("C12", "height-to-id-history", "consumer %s: height %d maps to update id %d, expected %d", cid, hh, got, id))
		}
	}
	return vs
}

func (w *vrWorker) XWorldForTier2() *XWorld { return w.w }
