package env

import (
	"encoding/base64"
	"fmt"
	appProvider "github.com/cosmos/interchain-security/v7/app/provider"
	"time"

	"cosmossdk.io/math"

	codectypes "github.com/cosmos/cosmos-sdk/codec/types"
	sdk "github.com/cosmos/cosmos-sdk/types"
	slashingtypes "github.com/cosmos/cosmos-sdk/x/slashing/types"
	stakingtypes "github.com/cosmos/cosmos-sdk/x/staking/types"
)

func b64(b []byte) string { return base64.StdEncoding.EncodeToString(b) }

func Coin(amt int64) sdk.Coin { return sdk.NewInt64Coin(BondDenom, amt) }

func MsgDelegate(from Acct, v Val, amt int64) sdk.Msg {
	return stakingtypes.NewMsgDelegate(from.Addr.String(), v.ValAddr().String(), Coin(amt))
}

func MsgUndelegate(from Acct, v Val, amt int64) sdk.Msg {
	return stakingtypes.NewMsgUndelegate(from.Addr.String(), v.ValAddr().String(), Coin(amt))
}

func MsgRedelegate(from Acct, src, dst Val, amt int64) sdk.Msg {
	return stakingtypes.NewMsgBeginRedelegate(from.Addr.String(), src.ValAddr().String(), dst.ValAddr().String(), Coin(amt))
}

func MsgUnjail(v Val) sdk.Msg { return slashingtypes.NewMsgUnjail(v.ValAddr().String()) }

// MsgCreateValidator creates validator v (operator = v.Oper) with consensus key key.
func MsgCreateValidator(v Val, key ConsKey, amt int64) sdk.Msg {
	pkAny, err := codectypes.NewAnyWithValue(key.Pub)
	if err != nil {
		panic(err)
	}
	return &stakingtypes.MsgCreateValidator{
		Description:       stakingtypes.Description{Moniker: "new-" + v.Oper.Name},
		Commission:        stakingtypes.NewCommissionRates(math.LegacyNewDecWithPrec(1, 1), math.LegacyOneDec(), math.LegacyOneDec()),
		MinSelfDelegation: math.OneInt(),
		ValidatorAddress:  v.ValAddr().String(),
		Pubkey:            pkAny,
		Value:             Coin(amt),
	}
}

// JailDowntime does what the SDK slashing module does when a validator misses too many blocks:
// slash (downtime fraction), jail, set jailed-until. It is an environment event of the provider
// chain (CometBFT vote infos are not modelled).
func (s *State) JailDowntime(p *Provider, v Val) error {
	err, pan := s.Raw("jail-downtime", func(app ABCIApp, ctx sdk.Context) error {
		pa := app.(*appProvider.App)
		sk := pa.SlashingKeeper
		stk := pa.StakingKeeper
		val, err := stk.GetValidatorByConsAddr(ctx, v.ConsAddr())
		if err != nil {
			return err
		}
		if val.IsJailed() || val.IsUnbonded() {
			return errNoop
		}
		frac, err := sk.SlashFractionDowntime(ctx)
		if err != nil {
			return err
		}
		power := val.ConsensusPower(sdk.DefaultPowerReduction)
		if err := sk.Slash(ctx, v.ConsAddr(), frac, power, ctx.BlockHeight()-1); err != nil {
			return err
		}
		if err := sk.Jail(ctx, v.ConsAddr()); err != nil {
			return err
		}
		d, err := sk.DowntimeJailDuration(ctx)
		if err != nil {
			return err
		}
		return sk.JailUntil(ctx, v.ConsAddr(), ctx.BlockTime().Add(d))
	})
	if pan != "" {
		return fmt.Errorf("panic: %s", pan)
	}
	return err
}

type noopErr struct{}

func (noopErr) Error() string { return "no-op" }

var errNoop = noopErr{}

var _ = time.Second
