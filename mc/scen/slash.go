package scen

import (
	"bytes"
	"encoding/hex"
	"fmt"
	consumertypes "github.com/cosmos/interchain-security/v7/x/ccv/consumer/types"
	"strings"
	"time"

	"cosmossdk.io/math"

	sdk "github.com/cosmos/cosmos-sdk/types"
	stakingtypes "github.com/cosmos/cosmos-sdk/x/staking/types"
	channeltypes "github.com/cosmos/ibc-go/v10/modules/core/04-channel/types"

	"verif/mc/engine"
	"verif/mc/env"

	ccvprovider "github.com/cosmos/interchain-security/v7/x/ccv/provider"
	providertypes "github.com/cosmos/interchain-security/v7/x/ccv/provider/types"
	ccv "github.com/cosmos/interchain-security/v7/x/ccv/types"
)

// Slash is the C08 / C09 scenario (plus the slash-packet parts of C12 and C06): two consumers report
// downtime / double-signing; the provider's decision, throttling, acknowledgements and the
// consumer's send discipline are judged on every step.
type Slash struct {
	Variant string // "full" | "ackloop" | "throttle" | "retry" | "epoch3"
}

func (c Slash) Name() string           { return "slash" }
func (c Slash) Params() map[string]any { return map[string]any{"Variant": c.Variant} }
func (c Slash) epoch() int64 {
	if c.Variant == "epoch3" {
		return 3
	}
	return 1
}

type jailEv struct {
	T     int64 // unix nanos
	Power int64
	Meter int64 // meter right before the jail
}
type replEv struct {
	T   int64
	Amt int64
}

type slNode struct {
	*XNode
	InFlight map[string]bool // consumer -> a slash packet was sent and no acknowledgement has been relayed yet
	Jails    []jailEv
	Repls    []replEv
	Stopped  map[string]bool
	// Out: the harness's own ledger of outstanding downtime reports, "<consumer>/<hex address>": set when
	// the consumer queues a downtime report, cleared when a VSC packet acknowledging that address
	// arrives (or, don't-care, when the validator joins the consumer's set anew / during a long wait)
	Out map[string]bool
}

func (n *slNode) clone() *slNode {
	o := &slNode{XNode: n.XNode.Clone(), InFlight: map[string]bool{}, Stopped: map[string]bool{}, Out: map[string]bool{},
		Jails: append([]jailEv{}, n.Jails...), Repls: append([]replEv{}, n.Repls...)}
	for k, v := range n.InFlight {
		o.InFlight[k] = v
	}
	for k, v := range n.Stopped {
		o.Stopped[k] = v
	}
	for k, v := range n.Out {
		o.Out[k] = v
	}
	return o
}

func outKey(cid string, addr sdk.ConsAddress) string { return fmt.Sprintf("%s/%x", cid, []byte(addr)) }

func (n *slNode) digest() string {
	var b strings.Builder
	for _, k := range sortedKeys(n.InFlight) {
		fmt.Fprintf(&b, "%s:%v,", k, n.InFlight[k])
	}
	fmt.Fprintf(&b, "|%v|%v|%v", n.Jails, n.Repls, sortedKeys(n.Out))
	return b.String()
}

type slWorker struct {
	cfg    Slash
	w      *XWorld
	p      *env.Provider
	tab    Table
	root   *slNode
	stats  *engine.Stats
	rootVs []V
	cons   []string
	kOld   env.ConsKey // v1's first key on consumer 0 (replaced after launch)
	kNew   env.ConsKey // v1's current key on consumer 0
	kUnk   env.ConsKey // a key nobody uses
	maxPow int64
}

func (c Slash) NewWorker(stats *engine.Stats) (engine.Worker, error) {
	p, err := env.NewProvider(env.ProviderCfg{SelfTokens: []int64{5 * unit, 3 * unit, 1 * unit, 1 * unit}, Users: 1,
		SlashFraction: "0.3", SlashPeriod: 30 * time.Minute, MutateGenesis: shortJail, BlocksPerEpoch: c.epoch()})
	if err != nil {
		return nil, err
	}
	xw := &XWorld{P: p, CA: env.NewConsumerApp(), Stats: stats, Delay: 1}
	if c.Variant == "retry" {
		// a retry delay that differs from every other duration parameter of the consumer (2 h; the transfer
		// timeout is 1 h): retries are judged against the parameter as stored, not against a getter
		xw.ConsumerGenesis = func(g *consumertypes.GenesisState) { g.Params.RetryDelayPeriod = 2 * time.Hour }
	}
	w := &slWorker{cfg: c, w: xw, p: p, stats: stats, kOld: env.NewConsKey("sl-old"), kNew: env.NewConsKey("sl-new"), kUnk: env.NewConsKey("sl-unknown"), cons: []string{"0", "1"}, maxPow: 5}
	st := p.Root.Branch()
	A := p.Users[0].Addr.String()
	must := func(s *env.State, m sdk.Msg) error {
		if r := s.Deliver(m); r.Err != nil {
			return fmt.Errorf("%T: %w", m, r.Err)
		}
		return nil
	}
	for i, chain := range []string{"cons-x", "cons-y"} {
		m := env.MsgCreateConsumer(A, chain, env.ConsumerInit{Spawn: st.Time()}.Params(chain), nil)
		x := ipP1 // downtime 0.02 / 50 s: the consumer's own parameters, different from the provider's defaults
		m.InfractionParameters = &x
		if err := must(&st, m); err != nil {
			return nil, err
		}
		for vi := range p.Vals {
			if err := must(&st, env.MsgOptIn(p.Vals[vi], fmt.Sprint(i), nil)); err != nil {
				return nil, err
			}
		}
	}
	if err := must(&st, env.MsgAssignKey(p.Vals[1], "0", w.kOld)); err != nil {
		return nil, err
	}
	n := &slNode{XNode: &XNode{P: st, C: map[string]env.State{}, L: map[string]env.Link{}}, InFlight: map[string]bool{}, Stopped: map[string]bool{}, Out: map[string]bool{}}
	r := xw.PBlock(n.XNode, 0, nil)
	if h := r.Halt(); h != "" {
		return nil, fmt.Errorf("prefix block: %s", h)
	}
	for _, cid := range w.cons {
		if _, err := xw.Boot(n.XNode, cid); err != nil {
			return nil, fmt.Errorf("boot %s: %w", cid, err)
		}
		if err := xw.Open(n.XNode, cid); err != nil {
			return nil, fmt.Errorf("open %s: %w", cid, err)
		}
	}
	// after launch: v1 replaces its key on consumer 0 (old key stays attributable for U), one epoch and a
	// delivery so that consumer 0 knows the new key and update ids beyond 0 exist
	n.touchP()
	if err := must(&n.P, env.MsgAssignKey(p.Vals[1], "0", w.kNew)); err != nil {
		return nil, err
	}
	// a power change seen by both consumers: the first VSC packet is what tells a consumer its CCV channel
	if err := must(&n.P, env.MsgDelegate(p.Delegator, p.Vals[3], unit)); err != nil {
		return nil, err
	}
	for i := 0; i < 2 || (len(n.L["0"].P2C.Packets) == 0 && i < 8); i++ {
		if r := xw.PBlock(n.XNode, 0, nil); r.Halt() != "" {
			return nil, fmt.Errorf("prefix block: %s", r.Halt())
		}
	}
	if r := xw.PBlock(n.XNode, 0, nil); r.Halt() != "" {
		return nil, fmt.Errorf("prefix block: %s", r.Halt())
	}
	for _, cid := range w.cons {
		xw.DeliverP2C(n.XNode, cid, 100)
		if r := xw.CBlock(n.XNode, cid, 0, nil); r.Halt() != "" {
			return nil, fmt.Errorf("prefix consumer block: %s", r.Halt())
		}
		if r := xw.CBlock(n.XNode, cid, 0, nil); r.Halt() != "" {
			return nil, fmt.Errorf("prefix consumer block: %s", r.Halt())
		}
	}
	for _, cid := range w.cons {
		if _, ok := xw.CA.K.GetProviderChannel(n.C[cid].Ctx); !ok {
			return nil, fmt.Errorf("fixture: consumer %s does not know its CCV channel", cid)
		}
	}
	if c.Variant == "ackloop" {
		// a validator-set packet changing v2's power is in flight to both consumers: applying it must not
		// make consumer 0 forget an outstanding report against v2
		n.touchP()
		if err := must(&n.P, env.MsgDelegate(p.Delegator, p.Vals[2], unit)); err != nil {
			return nil, err
		}
		// ... and v1 (which uses an assigned key on consumer 0) has left consumer 0's set on the provider
		// while the consumer does not know yet: its reports against v1 are declined and must be acknowledged
		if err := must(&n.P, env.MsgOptOut(p.Vals[1], "0")); err != nil {
			return nil, err
		}
		if r := xw.PBlock(n.XNode, 0, nil); r.Halt() != "" {
			return nil, fmt.Errorf("prefix block: %s", r.Halt())
		}
		if len(n.L["0"].P2C.Packets) == 0 {
			return nil, fmt.Errorf("fixture: no validator-set packet in flight to consumer 0")
		}
	}
	w.root = n
	w.build()
	if c.Variant == "throttle" || c.Variant == "retry" {
		// start with the meter already negative: consumer 0 reports v0 (power 5 > allowance 3)
		for _, ev := range []string{"C0.report(v0)", "C0.block", "deliver(C0->P)", "P.block", "ack(P->C0)"} {
			nn, vs := w.tab.Apply(w.root, ev)
			w.rootVs = append(w.rootVs, vs...)
			if nn == nil {
				return nil, fmt.Errorf("throttle prefix: %s failed", ev)
			}
			w.root = nn.(*slNode)
		}
		if m := p.K.GetSlashMeter(w.root.P.Ctx); !m.IsNegative() {
			return nil, fmt.Errorf("throttle prefix: meter %s not negative", m)
		}
	}
	if c.Variant == "retry" {
		// ... and consumer 1 holds a bounced report waiting for its retry
		for _, ev := range []string{"C1.report(v2)", "C1.block", "deliver(C1->P)", "P.block", "ack(P->C1)"} {
			nn, vs := w.tab.Apply(w.root, ev)
			w.rootVs = append(w.rootVs, vs...)
			if nn == nil {
				return nil, fmt.Errorf("retry prefix: %s failed", ev)
			}
			w.root = nn.(*slNode)
		}
		if rec, ok := xw.CA.K.GetSlashRecord(w.root.C["1"].Ctx); !ok || rec.WaitingOnReply {
			return nil, fmt.Errorf("retry prefix: consumer 1 is not in the bounced state")
		}
	}
	return w, nil
}

func (w *slWorker) RootViolations() []V            { return w.rootVs }
func (w *slWorker) Root() engine.Node              { return w.root }
func (w *slWorker) Enabled(n engine.Node) []string { return w.tab.Names() }
func (w *slWorker) Apply(n engine.Node, ev string) (engine.Node, []V) {
	return w.tab.Apply(n, ev)
}
func (w *slWorker) Hash(n engine.Node) [32]byte {
	x := n.(*slNode)
	return w.w.hashNode(x.XNode, x.digest())
}

// consAddrOn: the consensus address validator vi is known by on consumer cid.
func (w *slWorker) consAddrOn(vi int, cid string) sdk.ConsAddress {
	if vi == 1 && cid == "0" {
		return w.kNew.ConsAddr()
	}
	return w.p.Vals[vi].ConsAddr()
}

func (w *slWorker) build() {
	p := w.p
	full := w.cfg.Variant == "full"
	w.tab.Add("P.block", func(n engine.Node) (engine.Node, []V) { return w.pblock(n.(*slNode)) })
	type rep struct {
		cid  string
		name string
		addr sdk.ConsAddress
		inf  stakingtypes.Infraction
	}
	var reps []rep
	switch w.cfg.Variant {
	case "ackloop":
		reps = []rep{{"0", "v2", w.consAddrOn(2, "0"), stakingtypes.Infraction_INFRACTION_DOWNTIME}, {"0", "v3", w.consAddrOn(3, "0"), stakingtypes.Infraction_INFRACTION_DOWNTIME},
			{"0", "v1", w.consAddrOn(1, "0"), stakingtypes.Infraction_INFRACTION_DOWNTIME}}
	case "epoch3":
		reps = []rep{{"0", "v2", w.consAddrOn(2, "0"), stakingtypes.Infraction_INFRACTION_DOWNTIME}, {"0", "v3", w.consAddrOn(3, "0"), stakingtypes.Infraction_INFRACTION_DOWNTIME},
			{"1", "v2", w.consAddrOn(2, "1"), stakingtypes.Infraction_INFRACTION_DOWNTIME}}
	case "retry":
		reps = []rep{{"1", "v2", w.consAddrOn(2, "1"), stakingtypes.Infraction_INFRACTION_DOWNTIME}, {"1", "v1", w.consAddrOn(1, "1"), stakingtypes.Infraction_INFRACTION_DOWNTIME},
			{"0", "v0", w.consAddrOn(0, "0"), stakingtypes.Infraction_INFRACTION_DOWNTIME}}
	case "throttle":
		reps = []rep{{"0", "v0", w.consAddrOn(0, "0"), stakingtypes.Infraction_INFRACTION_DOWNTIME}, {"0", "v1", w.consAddrOn(1, "0"), stakingtypes.Infraction_INFRACTION_DOWNTIME},
			{"1", "v2", w.consAddrOn(2, "1"), stakingtypes.Infraction_INFRACTION_DOWNTIME}, {"1", "v1", w.consAddrOn(1, "1"), stakingtypes.Infraction_INFRACTION_DOWNTIME}}
	default:
		reps = []rep{
			{"0", "v0", w.consAddrOn(0, "0"), stakingtypes.Infraction_INFRACTION_DOWNTIME},
			{"0", "v1", w.consAddrOn(1, "0"), stakingtypes.Infraction_INFRACTION_DOWNTIME},
			{"0", "v1-oldkey", w.kOld.ConsAddr(), stakingtypes.Infraction_INFRACTION_DOWNTIME},
			{"0", "v1-provkey", p.Vals[1].ConsAddr(), stakingtypes.Infraction_INFRACTION_DOWNTIME},
			{"0", "unknown", w.kUnk.ConsAddr(), stakingtypes.Infraction_INFRACTION_DOWNTIME},
			{"0", "v2", w.consAddrOn(2, "0"), stakingtypes.Infraction_INFRACTION_DOWNTIME},
			{"0", "v2-doublesign", w.consAddrOn(2, "0"), stakingtypes.Infraction_INFRACTION_DOUBLE_SIGN},
			{"1", "v2", w.consAddrOn(2, "1"), stakingtypes.Infraction_INFRACTION_DOWNTIME},
			{"1", "v0", w.consAddrOn(0, "1"), stakingtypes.Infraction_INFRACTION_DOWNTIME},
		}
	}
	for _, r := range reps {
		r := r
		w.tab.Add(fmt.Sprintf("C%s.report(%s)", r.cid, r.name), func(n engine.Node) (engine.Node, []V) { return w.report(n.(*slNode), r.cid, r.addr, r.inf) })
	}
	if w.cfg.Variant == "ackloop" {
		w.tab.Add("C0.legacy(vscmatured)", func(n engine.Node) (engine.Node, []V) {
			// state inherited from an older version: a VSCMatured packet at the head of the pending queue
			x := n.(*slNode)
			if len(w.w.CA.K.GetPendingPackets(x.C["0"].Ctx)) != 0 {
				return nil, nil
			}
			c := x.clone()
			c.touchC("0")
			s := c.C["0"]
			_, _ = s.Raw("legacy-vscmatured", func(app env.ABCIApp, ctx sdk.Context) error {
				env.CK(app).AppendPendingPacket(ctx, ccv.VscMaturedPacket, &ccv.ConsumerPacketData_VscMaturedPacketData{
					VscMaturedPacketData: &ccv.VSCMaturedPacketData{ValsetUpdateId: 1}})
				return nil
			})
			c.C["0"] = s
			return c, nil
		})
	}
	if w.cfg.Variant == "full" {
		for _, inf := range []stakingtypes.Infraction{stakingtypes.Infraction_INFRACTION_DOWNTIME, stakingtypes.Infraction_INFRACTION_DOUBLE_SIGN} {
			inf := inf
			w.tab.Add(fmt.Sprintf("C0.forge(v2,id=9999,%s)", strings.TrimPrefix(inf.String(), "INFRACTION_")), func(n engine.Node) (engine.Node, []V) {
				// a (malicious) consumer queues a report carrying an update id the provider never issued
				c := n.(*slNode).clone()
				c.touchC("0")
				s := c.C["0"]
				_, _ = s.Raw("forged-report", func(app env.ABCIApp, ctx sdk.Context) error {
					env.CK(app).AppendPendingPacket(ctx, ccv.SlashPacket, &ccv.ConsumerPacketData_SlashPacketData{
						SlashPacketData: ccv.NewSlashPacketData(abciVal(p.Vals[2], 1), 9999, inf)})
					return nil
				})
				c.C["0"] = s
				return c, nil
			})
		}
	}
	for _, cid := range w.cons {
		cid := cid
		w.tab.Add("C"+cid+".block", func(n engine.Node) (engine.Node, []V) { return w.cblock(n.(*slNode), cid) })
		w.tab.Add("deliver(C"+cid+"->P)", func(n engine.Node) (engine.Node, []V) { return w.deliverSlash(n.(*slNode), cid) })
		w.tab.Add("ack(P->C"+cid+")", func(n engine.Node) (engine.Node, []V) { return w.ack(n.(*slNode), cid) })
		w.tab.Add("deliver(P->C"+cid+",all)", func(n engine.Node) (engine.Node, []V) { return w.deliverVSC(n.(*slNode), cid) })
	}
	if w.cfg.Variant != "ackloop" && w.cfg.Variant != "epoch3" {
		w.tab.Add("wait(30m)", func(n engine.Node) (engine.Node, []V) { return w.wait(n.(*slNode), 30*time.Minute) })
		w.tab.Add("wait(1h+)", func(n engine.Node) (engine.Node, []V) { return w.wait(n.(*slNode), time.Hour+time.Second) })
	}
	ptx := func(name string, mk func(x *slNode) sdk.Msg) {
		w.tab.Add(name, func(n engine.Node) (engine.Node, []V) {
			x := n.(*slNode)
			msg := mk(x)
			if msg == nil {
				return nil, nil
			}
			c := x.clone()
			c.touchP()
			if r := c.P.Deliver(msg); r.Err != nil {
				return nil, nil
			}
			return c, nil
		})
	}
	if w.cfg.Variant == "epoch3" {
		ptx("unbond-all(v3)", func(x *slNode) sdk.Msg {
			val, err := p.PApp.StakingKeeper.GetValidator(x.P.Ctx, p.Vals[3].ValAddr())
			if err != nil || val.Tokens.IsZero() {
				return nil
			}
			del, err := p.PApp.StakingKeeper.GetDelegation(x.P.Ctx, p.Vals[3].Oper.Addr, p.Vals[3].ValAddr())
			if err != nil {
				return nil
			}
			return env.MsgUndelegate(p.Vals[3].Oper, p.Vals[3], val.TokensFromShares(del.Shares).TruncateInt64())
		})
	}
	if full {
		w.tab.Add("jail(v2)", func(n engine.Node) (engine.Node, []V) {
			c := n.(*slNode).clone()
			c.touchP()
			if err := c.P.JailDowntime(p, p.Vals[2]); err != nil {
				return nil, nil
			}
			return c, nil
		})
		ptx("optout(v2,c0)", func(*slNode) sdk.Msg { return env.MsgOptOut(p.Vals[2], "0") })
		ptx("stop(c0)", func(*slNode) sdk.Msg { return env.MsgRemoveConsumer(p.Users[0].Addr.String(), "0") })
		ptx("unbond-all(v3)", func(x *slNode) sdk.Msg {
			val, err := p.PApp.StakingKeeper.GetValidator(x.P.Ctx, p.Vals[3].ValAddr())
			if err != nil || val.Tokens.IsZero() {
				return nil
			}
			return env.MsgUndelegate(p.Vals[3].Oper, p.Vals[3], val.Tokens.Int64())
		})
	}
	if w.cfg.Variant == "throttle" {
		ptx("delegate(v3,+10)", func(*slNode) sdk.Msg { return env.MsgDelegate(p.Delegator, p.Vals[3], 10*unit) })
		ptx("undelegate(v0,-3)", func(*slNode) sdk.Msg { return env.MsgUndelegate(p.Vals[0].Oper, p.Vals[0], 3*unit) })
		// governance changes the throttle parameters: the meter itself moves only in begin-block
		// (replenishment) and when a report is handled, never because a parameter changed
		w.tab.Add("gov:params(replenish-fraction)", func(n engine.Node) (engine.Node, []V) {
			x := n.(*slNode)
			params := p.K.GetParams(x.P.Ctx)
			if params.SlashMeterReplenishFraction == "0.3" {
				params.SlashMeterReplenishFraction = "0.05"
			} else {
				params.SlashMeterReplenishFraction = "0.3"
			}
			c := x.clone()
			c.touchP()
			pre := p.K.GetSlashMeter(x.P.Ctx)
			if r := c.P.Deliver(&providertypes.MsgUpdateParams{Authority: p.GovAddr, Params: params}); r.Err != nil {
				debugOnce("slash:gov-params", r.Err)
				return nil, nil
			}
			w.stats.Count("throttle-params-changed")
			if post := p.K.GetSlashMeter(c.P.Ctx); !post.Equal(pre) {
				return c, []V{vf("C09", "meter-moved-by-parameter-change", "a governance parameter update moved the slash meter %s -> %s (it is replenished only in begin-block, once per period)", pre, post)}
			}
			return c, nil
		})
	}
}

// report: the consumer's slashing / evidence module reports an infraction of the validator known
// by addr (the exact keeper call those modules make).
func (w *slWorker) report(x *slNode, cid string, addr sdk.ConsAddress, inf stakingtypes.Infraction) (engine.Node, []V) {
	if _, ok := x.C[cid]; !ok {
		return nil, nil
	}
	c := x.clone()
	c.touchC(cid)
	s := c.C[cid]
	k := w.w.CA.K
	h := s.Height() - 1
	if h < 1 {
		h = 1
	}
	pre := len(k.GetPendingPackets(s.Ctx))
	outstanding := k.OutstandingDowntime(s.Ctx, addr)
	wantID := k.GetHeightValsetUpdateID(s.Ctx, uint64(h))
	power := int64(1)
	for _, v := range k.GetAllCCValidator(s.Ctx) {
		if bytes.Equal(v.Address, addr) {
			power = v.Power
		}
	}
	_, pan := s.Raw("slashing-module-report", func(app env.ABCIApp, ctx sdk.Context) error {
		_, err := env.CK(app).SlashWithInfractionReason(ctx, addr, h, power, math.LegacyNewDecWithPrec(1, 2), inf)
		return err
	})
	c.C[cid] = s
	if pan != "" {
		return nil, []V{vf("C19", "panic:consumer-slash", "%s", pan)}
	}
	var vs []V
	post := k.GetPendingPackets(s.Ctx)
	downtime := inf == stakingtypes.Infraction_INFRACTION_DOWNTIME
	if downtime && (outstanding || x.Out[outKey(cid, addr)]) {
		w.stats.Count("report-while-outstanding")
		if len(post) != pre {
			vs = append(vs, vf("C08", "second-outstanding-report", "consumer %s queued a second downtime report for %s while one is outstanding (flag=%v, no acknowledgement received since the first)", cid, addr, outstanding))
			return nil, vs
		}
		return nil, vs // nothing changed
	}
	if len(post) != pre+1 {
		vs = append(vs, vf("C08", "report-not-queued", "consumer %s: report for %s not queued (%d -> %d pending)", cid, addr, pre, len(post)))
		return c, vs
	}
	d := post[len(post)-1].GetSlashPacketData()
	if d == nil || d.ValsetUpdateId != wantID {
		vs = append(vs, vf("C12", "slash-packet-id", "consumer %s: report for infraction height %d carries update id %v, the id associated with that height is %d", cid, h, d, wantID))
	}
	if downtime && !k.OutstandingDowntime(s.Ctx, addr) {
		vs = append(vs, vf("C08", "outstanding-flag-not-set", "consumer %s: downtime report for %s queued but not marked outstanding", cid, addr))
	}
	if downtime {
		c.Out[outKey(cid, addr)] = true
	}
	w.stats.Count("report-queued")
	return c, vs
}

// cblock: consumer block; judges the send discipline (C09) and, with C01's rule out of scope here,
// only halts.
func (w *slWorker) cblock(x *slNode, cid string) (engine.Node, []V) {
	if _, ok := x.C[cid]; !ok {
		return nil, nil
	}
	c := x.clone()
	k := w.w.CA.K
	pre := c.C[cid]
	rec, hasRec := k.GetSlashRecord(pre.Ctx)
	pending := k.GetPendingPackets(pre.Ctx)
	delay := k.GetConsumerParams(pre.Ctx).RetryDelayPeriod
	_, chanOK := k.GetProviderChannel(pre.Ctx)
	before := len(c.L[cid].C2P.Packets)
	member := map[string]bool{}
	for _, v := range k.GetAllCCValidator(pre.Ctx) {
		member[outKey(cid, v.Address)] = true
	}
	r := w.w.CBlock(c.XNode, cid, 0, nil)
	vs := haltViolation("consumer", r)
	if r.Halt() != "" {
		return nil, vs
	}
	for _, v := range k.GetAllCCValidator(c.C[cid].Ctx) {
		if ok := outKey(cid, v.Address); !member[ok] {
			delete(c.Out, ok) // joined anew: the consumer deliberately forgets an old report (issue 1569)
		}
	}
	vs = append(vs, w.judgeSends(c, cid, pre.Time(), hasRec, rec.WaitingOnReply, rec.SendTime, delay, pending, chanOK, before)...)
	return c, vs
}

func (w *slWorker) judgeSends(c *slNode, cid string, endTime time.Time, hasRec, waiting bool, sendTime time.Time, delay time.Duration, pending []ccv.ConsumerPacketData, chanOK bool, before int) []V {
	var vs []V
	sent := c.L[cid].C2P.Packets[before:]
	permitted := !hasRec || (!waiting && endTime.After(sendTime.Add(delay)))
	switch {
	case len(sent) > 0 && hasRec && waiting:
		vs = append(vs, vf("C09", "sent-while-in-flight", "consumer %s sent %d CCV packet(s) while its slash packet is in flight (no reply yet)", cid, len(sent)))
	case len(sent) > 0 && hasRec && !waiting && !endTime.After(sendTime.Add(delay)):
		vs = append(vs, vf("C09", "retry-before-delay", "consumer %s re-sent at %s, bounced packet was sent at %s, retry delay %s", cid, endTime.Format("15:04:05"), sendTime.Format("15:04:05"), delay))
	}
	// the packets sent are a prefix of the pending queue, in order, and nothing follows a slash packet
	nSlash := 0
	for i, q := range sent {
		if nSlash > 0 {
			vs = append(vs, vf("C09", "more-than-one-packet", "consumer %s sent %d packets in one block and packet %d follows a slash packet whose reply is outstanding", cid, len(sent), i))
			break
		}
		if i >= len(pending) || !bytes.Equal(q.P.Data, pending[i].GetBytes()) {
			vs = append(vs, vf("C09", "sent-not-head-of-queue", "consumer %s sent a packet that is not the head of its pending queue", cid))
			break
		}
		if isSlashWire(q.P.Data) {
			nSlash++
		}
	}
	if nSlash > 0 {
		if c.InFlight[cid] {
			vs = append(vs, vf("C09", "duplicate-in-flight", "consumer %s sent a slash packet while an earlier one is still unacknowledged", cid))
			// the same report leaving twice is also two outstanding reports for one validator (C08)
			vs = append(vs, vf("C08", "second-outstanding-report:resent", "consumer %s sent a report again while its first copy is still unacknowledged: two reports for one validator are outstanding", cid))
		}
		c.InFlight[cid] = true
		if hasRec {
			w.stats.Count("slash-retried")
		} else {
			w.stats.Count("slash-sent")
		}
	}
	if len(sent) == 0 && permitted && len(pending) > 0 && chanOK && !c.Stopped[cid] {
		// nothing sent although permitted: only legitimate if the send itself failed (closed channel /
		// expired client) — not reachable with fresh clients and an open channel
		if ch, ok := w.w.CA.CApp.IBCKeeper.ChannelKeeper.GetChannel(c.C[cid].Ctx, ccv.ConsumerPortID, c.L[cid].CChan); ok && ch.State.String() == "STATE_OPEN" {
			vs = append(vs, vf("C09", "permitted-but-not-sent", "consumer %s has %d pending packets, sending is permitted, the channel is open, but nothing was sent", cid, len(pending)))
		}
	}
	return vs
}

type valSnap struct {
	exists     bool
	ubd        math.Int // balance of unbonding delegations from this validator
	tokens     math.Int
	jailed     bool
	status     stakingtypes.BondStatus
	tombstoned bool
	jailedTil  time.Time
	bz         []byte
}

func (w *slWorker) snap(ctx sdk.Context, vi int) valSnap {
	p := w.p
	v, err := p.PApp.StakingKeeper.GetValidator(ctx, p.Vals[vi].ValAddr())
	if err != nil {
		return valSnap{}
	}
	s := valSnap{exists: true, tokens: v.Tokens, jailed: v.Jailed, status: v.Status, ubd: math.ZeroInt()}
	s.bz, _ = v.Marshal()
	if ubds, err := p.PApp.StakingKeeper.GetUnbondingDelegationsFromValidator(ctx, p.Vals[vi].ValAddr()); err == nil {
		for _, u := range ubds {
			for _, e := range u.Entries {
				s.ubd = s.ubd.Add(e.Balance)
			}
		}
	}
	if si, err := p.PApp.SlashingKeeper.GetValidatorSigningInfo(ctx, p.Vals[vi].ConsAddr()); err == nil {
		s.tombstoned, s.jailedTil = si.Tombstoned, si.JailedUntil
		b2, _ := si.Marshal()
		s.bz = append(s.bz, b2...)
	}
	return s
}

// resolveRef: which fixture validator owns a consumer address on consumer cid (reference model).
func (w *slWorker) resolveRef(ctx sdk.Context, cid string, addr []byte) int {
	if cid == "0" {
		if bytes.Equal(addr, w.kNew.ConsAddr()) {
			return 1
		}
		if bytes.Equal(addr, w.kOld.ConsAddr()) {
			// replaced at launch+5s: attributable for one unbonding period, don't-care afterwards
			return 1
		}
		// v1's provider key was never assigned on this consumer: it resolves to v1 as provider key
	}
	for i, v := range w.p.Vals {
		if bytes.Equal(addr, v.ConsAddr()) {
			return i
		}
	}
	return -1
}

// isSlashWire: does this consumer->provider packet carry slash packet data (as opposed to a legacy
// VSCMatured packet, which consumers of this version no longer create but may still hold in their
// pending queue after an upgrade or a genesis restart).
func isSlashWire(bz []byte) bool {
	cp, err := ccvprovider.UnmarshalConsumerPacketData(bz)
	return err == nil && cp.GetSlashPacketData() != nil
}

// deliverSlash: relay the next consumer packet to the provider and judge the provider's decision.
func (w *slWorker) deliverSlash(x *slNode, cid string) (engine.Node, []V) {
	if len(x.L[cid].C2P.Packets) == 0 {
		return nil, nil
	}
	p := w.p
	c := x.clone()
	pre := x.P
	ctx := pre.Ctx
	head := x.L[cid].C2P.Packets[0]
	cp, err := ccvprovider.UnmarshalConsumerPacketData(head.P.Data)
	if err != nil {
		return nil, []V{vf("HARNESS", "undecodable-consumer-packet", "%v", err)}
	}
	if cp.GetSlashPacketData() == nil {
		// a legacy VSCMatured packet: the provider ignores it, nobody is affected
		var snaps [4]valSnap
		for i := range p.Vals {
			snaps[i] = w.snap(ctx, i)
		}
		got, res := w.w.DeliverC2P(c.XNode, cid)
		if got == nil {
			return nil, nil
		}
		if res.Panic != "" {
			return nil, []V{vf("C19", "panic:provider-recv-vscmatured", "%s", res.Panic)}
		}
		var vs []V
		for i := range p.Vals {
			if !bytes.Equal(snaps[i].bz, w.snap(c.P.Ctx, i).bz) {
				vs = append(vs, vf("C08", "punished-without-cause:vscmatured", "a VSCMatured packet from consumer %s changed validator v%d", cid, i))
			}
		}
		w.stats.Count("vscmatured-delivered")
		return c, vs
	}
	d := cp.GetSlashPacketData()
	// ----- pre-state facts
	preMeter := p.K.GetSlashMeter(ctx)
	preAcks := p.K.GetSlashAcks(ctx, cid)
	launched := p.K.GetConsumerPhase(ctx, cid) == providertypes.CONSUMER_PHASE_LAUNCHED
	vi := w.resolveRef(ctx, cid, d.Validator.Address)
	oldKeyExpired := false
	if cid == "0" && bytes.Equal(d.Validator.Address, w.kOld.ConsAddr()) {
		if got := p.K.GetProviderAddrFromConsumerAddr(ctx, cid, providertypes.NewConsumerConsAddress(w.kOld.ConsAddr())); !got.ToSdkConsAddr().Equals(p.Vals[1].ConsAddr()) {
			oldKeyExpired = true // pruned (judged by C06 against the deadline); identity resolution from now on
			vi = -1
		}
	}
	idIssued := false
	if d.ValsetUpdateId == 0 {
		_, idIssued = p.K.GetInitChainHeight(ctx, cid)
	} else {
		idIssued = d.ValsetUpdateId < p.K.GetValidatorSetUpdateId(ctx)
	}
	currentID := d.ValsetUpdateId == p.K.GetValidatorSetUpdateId(ctx) // statement does not say: don't-care
	var snaps [4]valSnap
	for i := range p.Vals {
		snaps[i] = w.snap(ctx, i)
	}
	inSet := false
	var power int64
	if vi >= 0 {
		inSet = p.K.IsConsumerValidator(ctx, cid, p.Vals[vi].PAddr())
		power, _ = p.PApp.StakingKeeper.GetLastValidatorPower(ctx, p.Vals[vi].ValAddr())
	}
	ip, _ := p.K.GetInfractionParameters(ctx, cid)
	// ----- deliver
	got, res := w.w.DeliverC2P(c.XNode, cid)
	if got == nil {
		return nil, nil
	}
	var vs []V
	if res.Panic != "" {
		return nil, []V{vf("C19", "panic:provider-recv-slash", "%s", res.Panic)}
	}
	post := c.P.Ctx
	postMeter := p.K.GetSlashMeter(post)
	postAcks := p.K.GetSlashAcks(post, cid)
	ackStr := "error"
	if res.Success {
		ackStr = fmt.Sprint(ackResult(res.Ack))
	}
	// an acknowledgement is owed under the address the consumer reported (that is the key of its
	// outstanding-report flag); anything else cannot clear the report
	wantAck := sdk.ConsAddress(d.Validator.Address).String()
	gained := len(postAcks) == len(preAcks)+1 && postAcks[len(postAcks)-1] == wantAck
	if len(postAcks) == len(preAcks)+1 && !gained {
		vs = append(vs, vf("C08", "slash-ack-wrong-address", "consumer %s reported %s; the provider recorded the acknowledgement under %s, which the consumer cannot match to its outstanding report", cid, wantAck, postAcks[len(postAcks)-1]))
	}
	changed := func(i int) bool { return !bytes.Equal(snaps[i].bz, w.snap(post, i).bz) }
	nobodyChanged := func(why string) {
		for i := range p.Vals {
			if changed(i) {
				vs = append(vs, vf("C08", "punished-without-cause:"+why, "slash packet from consumer %s (%s): validator v%d changed although %s", cid, d.Infraction, i, why))
			}
		}
	}
	downtime := d.Infraction == stakingtypes.Infraction_INFRACTION_DOWNTIME
	switch {
	case currentID:
		w.stats.Count("slash:current-id(dont-care)")
	case !idIssued:
		w.stats.Count("slash:unknown-id")
		if res.Success {
			vs = append(vs, vf("C12", "unissued-id-not-error-acked", "slash packet with update id %d (provider's next id is %d) was not answered with an error acknowledgement", d.ValsetUpdateId, p.K.GetValidatorSetUpdateId(ctx)))
		}
		nobodyChanged("the update id was never issued")
	case !downtime:
		w.stats.Count("slash:double-sign")
		nobodyChanged("double-sign slash packets never punish")
		if !res.Success {
			vs = append(vs, vf("C08", "double-sign-packet-error-ack", "double-sign slash packet got an error acknowledgement"))
		}
	case !launched:
		w.stats.Count("slash:not-launched")
		nobodyChanged("the consumer is not launched")
		if !gained {
			vs = append(vs, vf("C08", "no-slash-ack:not-launched", "consumer %s is not launched: report declined but not acknowledged (acks %v -> %v)", cid, preAcks, postAcks))
		}
	case vi < 0 || !inSet:
		w.stats.Count("slash:not-in-set")
		nobodyChanged("the reported key belongs to no validator of this consumer's set")
		if !gained && !oldKeyExpired {
			vs = append(vs, vf("C08", "no-slash-ack:not-in-set", "consumer %s: reported validator is not in the consumer's set: declined but not acknowledged (acks %v -> %v)", cid, preAcks, postAcks))
		}
	case preMeter.IsNegative():
		w.stats.Count("slash:bounced")
		nobodyChanged("the slash meter is negative")
		if ackStr != fmt.Sprint(ccv.SlashPacketBouncedResult) {
			vs = append(vs, vf("C09", "not-bounced-with-negative-meter", "slash meter %s < 0 but the packet was answered %s", preMeter, ackStr))
		}
		if !postMeter.Equal(preMeter) || gained {
			vs = append(vs, vf("C09", "bounce-changed-state", "bounced packet changed meter %s -> %s or slash acks %v -> %v", preMeter, postMeter, preAcks, postAcks))
		}
	default:
		// admitted by the throttle
		s := snaps[vi]
		eff := power
		if s.jailed {
			eff = 0
		}
		if ackStr == fmt.Sprint(ccv.SlashPacketBouncedResult) {
			vs = append(vs, vf("C09", "bounced-with-non-negative-meter", "slash meter %s >= 0 but the packet was bounced", preMeter))
		}
		if !postMeter.Equal(preMeter.SubRaw(eff)) {
			vs = append(vs, vf("C09", "meter-deduction", "handled downtime report for v%d (power %d, jailed before=%v): meter %s -> %s, expected %s", vi, power, s.jailed, preMeter, postMeter, preMeter.SubRaw(eff)))
		}
		for i := range p.Vals {
			if i != vi && changed(i) {
				vs = append(vs, vf("C08", "other-validator-affected", "downtime report for v%d on consumer %s changed validator v%d", vi, cid, i))
			}
		}
		after := w.snap(post, vi)
		mustJail := s.exists && s.status != stakingtypes.Unbonded && !s.jailed && !s.tombstoned
		if mustJail {
			w.stats.Count("slash:jailed")
			wantBurn := ip.Downtime.SlashFraction.MulInt(sdk.TokensFromConsensusPower(d.Validator.Power, sdk.DefaultPowerReduction)).TruncateInt()
			if !after.jailed {
				vs = append(vs, vf("C08", "not-jailed", "consumer %s reported v%d (launched, in the set, bonded/unbonding, not jailed, not tombstoned, meter %s): not jailed", cid, vi, preMeter))
			} else {
				// the SDK takes the amount from the validator's tokens and from unbonding entries begun after the infraction
				burn := s.tokens.Sub(after.tokens).Add(s.ubd.Sub(after.ubd))
				if !burn.Equal(wantBurn) && !after.tokens.IsZero() && burn.GT(wantBurn) {
					vs = append(vs, vf("C08", "downtime-slash-amount", "v%d slashed %s (tokens + unbonding entries), the consumer's downtime fraction %s of reported power %d is %s", vi, burn, ip.Downtime.SlashFraction, d.Validator.Power, wantBurn))
				}
				if burn.IsZero() && wantBurn.IsPositive() {
					vs = append(vs, vf("C08", "downtime-not-slashed", "v%d jailed but nothing slashed (expected %s)", vi, wantBurn))
				}
				if want := pre.Time().Add(ip.Downtime.JailDuration); !after.jailedTil.Equal(want) {
					vs = append(vs, vf("C08", "downtime-jail-duration", "v%d jailed until %s, the consumer's downtime jail duration says %s", vi, after.jailedTil.Format("15:04:05"), want.Format("15:04:05")))
				}
				c.Jails = append(c.Jails, jailEv{T: pre.Time().UnixNano(), Power: power, Meter: preMeter.Int64()})
				// C12: the infraction is resolved to the provider height at which that validator set was
				// determined (the channel-opening height for id 0)
				wantH, okH := uint64(0), false
				if d.ValsetUpdateId == 0 {
					wantH, okH = p.K.GetInitChainHeight(ctx, cid)
				} else {
					wantH, okH = p.K.GetValsetUpdateBlockHeight(ctx, d.ValsetUpdateId)
				}
				if hs := env.EventAttr(res.Events, providertypes.EventTypeExecuteConsumerChainSlash, providertypes.AttributeInfractionHeight); okH && len(hs) == 1 {
					if hs[0] != fmt.Sprint(wantH) {
						vs = append(vs, vf("C12", "infraction-height", "downtime report with update id %d: the slash was executed for provider height %s, that id maps to height %d", d.ValsetUpdateId, hs[0], wantH))
					}
					w.stats.Count("infraction-height-checked")
				} else if okH {
					vs = append(vs, vf("C12", "no-slash-event", "validator jailed but %d execute-slash events were emitted", len(hs)))
				}
			}
			if !gained {
				vs = append(vs, vf("C08", "no-slash-ack:jailed", "v%d was jailed for consumer %s but no slash ack was recorded", vi, cid))
			}
		} else {
			if changed(vi) {
				vs = append(vs, vf("C08", "punished-without-cause:state", "v%d (exists=%v status=%s jailed=%v tombstoned=%v) changed on a downtime report", vi, s.exists, s.status, s.jailed, s.tombstoned))
			}
			if s.exists && s.jailed && !s.tombstoned && s.status != stakingtypes.Unbonded {
				w.stats.Count("slash:already-jailed")
				if !gained {
					vs = append(vs, vf("C08", "no-slash-ack:already-jailed", "v%d is already jailed: report declined but not acknowledged", vi))
				}
			} else {
				w.stats.Count("slash:unbonded-or-tombstoned(dont-care ack)")
			}
		}
	}
	if res.Success {
		w.stats.Count("ack:" + ackStr)
	} else {
		w.stats.Count("ack:error")
	}
	vs = append(vs, w.windowBound(c)...)
	return c, vs
}

func ackResult(ack []byte) []byte {
	var a channeltypes.Acknowledgement
	if err := ccv.ModuleCdc.UnmarshalJSON(ack, &a); err != nil {
		return nil
	}
	return a.GetResult()
}

// windowBound (C09): power jailed on behalf of consumers within any window is bounded by the meter
// at the window's start (if positive) + replenishments inside the window + one validator's power.
func (w *slWorker) windowBound(c *slNode) []V {
	var vs []V
	for i := range c.Jails {
		start := c.Jails[i]
		var jailed int64
		for _, j := range c.Jails[i:] {
			jailed += j.Power
		}
		var repl int64
		for _, r := range c.Repls {
			if r.T > start.T {
				repl += r.Amt
			}
		}
		budget := repl + w.maxPow
		if start.Meter > 0 {
			budget += start.Meter
		}
		if jailed > budget {
			vs = append(vs, vf("C09", "window-bound", "power jailed for consumers since %s: %d > meter at start %d + replenished %d + max validator power %d", time.Unix(0, start.T).UTC().Format("15:04:05"), jailed, start.Meter, repl, w.maxPow))
		}
	}
	return vs
}

// meterStep judges one provider BeginBlock (C09).
func (w *slWorker) meterStep(c *slNode, pre env.State) []V {
	p := w.p
	var vs []V
	preMeter := p.K.GetSlashMeter(pre.Ctx)
	postMeter := p.K.GetSlashMeter(c.P.Ctx)
	total, _ := p.PApp.StakingKeeper.GetLastTotalPower(c.P.Ctx)
	frac := math.LegacyMustNewDecFromStr(p.K.GetSlashMeterReplenishFraction(c.P.Ctx))
	lo := frac.MulInt(total).TruncateInt()
	hi := frac.MulInt(total).Ceil().TruncateInt()
	allowance := p.K.GetSlashMeterAllowance(c.P.Ctx)
	if allowance.LT(math.OneInt()) || (allowance.GT(math.OneInt()) && (allowance.LT(lo) || allowance.GT(hi))) {
		vs = append(vs, vf("C09", "allowance", "allowance %s for total power %s and fraction %s", allowance, total, frac))
	}
	if postMeter.GT(allowance) {
		vs = append(vs, vf("C09", "meter-above-allowance", "after begin-block the slash meter is %s, allowance %s", postMeter, allowance))
	}
	if postMeter.GT(preMeter) {
		rise := postMeter.Sub(preMeter)
		if rise.GT(allowance) {
			vs = append(vs, vf("C09", "replenished-more-than-allowance", "meter rose by %s in one block, allowance %s", rise, allowance))
		}
		now := c.P.Time().UnixNano()
		period := p.K.GetSlashMeterReplenishPeriod(c.P.Ctx)
		if len(c.Repls) > 0 {
			last := c.Repls[len(c.Repls)-1]
			if time.Duration(now-last.T) < period {
				vs = append(vs, vf("C09", "replenished-too-soon", "meter replenished at %s and again %s later (period %s)", time.Unix(0, last.T).UTC().Format("15:04:05"), time.Duration(now-last.T), period))
			}
		}
		c.Repls = append(c.Repls, replEv{T: now, Amt: rise.Int64()})
		w.stats.Count("meter-replenished")
	}
	return vs
}

func (w *slWorker) pblock(x *slNode) (engine.Node, []V) {
	c := x.clone()
	p := w.p
	pre := x.P
	preAcks := map[string][]string{}
	for _, cid := range w.cons {
		preAcks[cid] = p.K.GetSlashAcks(pre.Ctx, cid)
	}
	before := map[string]int{}
	for _, cid := range w.cons {
		before[cid] = len(c.L[cid].P2C.Packets)
	}
	r := w.w.PBlock(c.XNode, 0, nil)
	vs := haltViolation("provider", r)
	if r.Halt() != "" {
		return nil, vs
	}
	vs = append(vs, w.meterStep(c, pre)...)
	vs = append(vs, w.judgeAcksInVSC(c, preAcks, before)...)
	return c, vs
}

// judgeAcksInVSC (C08): a produced VSC packet carries exactly the slash acks accumulated so far and
// clears them; without a packet they stay.
func (w *slWorker) judgeAcksInVSC(c *slNode, preAcks map[string][]string, before map[string]int) []V {
	var vs []V
	p := w.p
	for _, cid := range w.cons {
		post := p.K.GetSlashAcks(c.P.Ctx, cid)
		newPk := c.L[cid].P2C.Packets[before[cid]:]
		pend := p.K.GetPendingVSCPackets(c.P.Ctx, cid)
		if len(newPk) == 0 && len(pend) == 0 {
			if fmt.Sprint(post) != fmt.Sprint(preAcks[cid]) && p.K.GetConsumerPhase(c.P.Ctx, cid) != providertypes.CONSUMER_PHASE_DELETED {
				vs = append(vs, vf("C08", "slash-acks-lost", "consumer %s: no validator-set update was produced in this block but the recorded slash acks went %v -> %v", cid, preAcks[cid], post))
			}
			continue
		}
		if len(newPk) > 0 {
			d, err := decodeVSC(newPk[len(newPk)-1].P.Data)
			if err == nil && len(preAcks[cid]) > 0 {
				w.stats.Count("vsc-with-slash-acks")
				carried := map[string]bool{}
				for _, q := range newPk {
					dd, _ := decodeVSC(q.P.Data)
					for _, a := range dd.SlashAcks {
						carried[a] = true
					}
				}
				for _, a := range preAcks[cid] {
					if !carried[a] {
						vs = append(vs, vf("C08", "slash-ack-not-carried", "consumer %s: slash ack %s was recorded but the update sent (id %d) does not carry it", cid, a, d.ValsetUpdateId))
					}
				}
				if len(post) != 0 {
					vs = append(vs, vf("C08", "slash-acks-not-cleared", "consumer %s: slash acks %v remain after being sent", cid, post))
				}
			}
		}
	}
	return vs
}

func (w *slWorker) ack(x *slNode, cid string) (engine.Node, []V) {
	if len(x.L[cid].C2P.Acks) == 0 {
		return nil, nil
	}
	c := x.clone()
	k := w.w.CA.K
	prePending := len(k.GetPendingPackets(x.C[cid].Ctx))
	preRec, preHas := k.GetSlashRecord(x.C[cid].Ctx)
	a, err, pan := w.w.AckC2P(c.XNode, cid)
	if a == nil {
		return nil, nil
	}
	if pan != "" {
		return nil, []V{vf("C19", "panic:consumer-ack", "%s", pan)}
	}
	if err != nil {
		return nil, nil
	}
	var vs []V
	post := c.C[cid]
	rec, has := k.GetSlashRecord(post.Ctx)
	pend := len(k.GetPendingPackets(post.Ctx))
	if !isSlashWire(a.P.Data) {
		// the reply to a legacy VSCMatured packet says nothing about a slash packet that is in flight
		w.stats.Count("ack-relayed:vscmatured")
		if has != preHas || rec.WaitingOnReply != preRec.WaitingOnReply || !rec.SendTime.Equal(preRec.SendTime) || pend != prePending {
			vs = append(vs, vf("C09", "foreign-ack-releases-slash-packet", "consumer %s got the reply to a VSCMatured packet: slash record present %v -> %v (waiting %v -> %v), pending %d -> %d; the slash packet in flight must neither be dropped nor released", cid, preHas, has, preRec.WaitingOnReply, rec.WaitingOnReply, prePending, pend))
		}
		return c, vs
	}
	c.InFlight[cid] = false
	res := ackResult(a.Bytes)
	switch {
	case len(res) == 1 && res[0] == ccv.SlashPacketBouncedResult[0]:
		w.stats.Count("ack-relayed:bounced")
		if !has || rec.WaitingOnReply || pend != prePending {
			vs = append(vs, vf("C09", "bounce-ack-handling", "consumer %s after a bounce ack: slash record present=%v waiting=%v, pending %d -> %d (the packet must stay queued for a retry)", cid, has, rec.WaitingOnReply, prePending, pend))
		}
	case len(res) == 1:
		w.stats.Count("ack-relayed:handled")
		if has || pend != prePending-1 {
			vs = append(vs, vf("C09", "handled-ack-handling", "consumer %s after a handled ack: slash record present=%v, pending %d -> %d (the handled packet must leave the queue exactly once)", cid, has, prePending, pend))
		}
	default:
		w.stats.Count("ack-relayed:error")
	}
	return c, vs
}

func (w *slWorker) deliverVSC(x *slNode, cid string) (engine.Node, []V) {
	if _, ok := x.C[cid]; !ok || len(x.L[cid].P2C.Packets) == 0 {
		return nil, nil
	}
	c := x.clone()
	got, res := w.w.DeliverP2C(c.XNode, cid, 1000)
	if len(got) == 0 {
		return nil, nil
	}
	var vs []V
	k := w.w.CA.K
	for i, q := range got {
		if res[i].Panic != "" {
			vs = append(vs, vf("C19", "panic:consumer-recv", "%s", res[i].Panic))
		}
		d, _ := decodeVSC(q.P.Data)
		for _, a := range d.SlashAcks {
			addr, err := sdk.ConsAddressFromBech32(a)
			if err != nil {
				continue
			}
			w.stats.Count("slash-ack-received")
			delete(c.Out, outKey(cid, addr))
			if k.OutstandingDowntime(c.C[cid].Ctx, addr) {
				vs = append(vs, vf("C08", "outstanding-not-cleared", "consumer %s received the slash ack for %s but the report is still marked outstanding", cid, a))
			}
		}
	}
	return c, vs
}

func (w *slWorker) wait(x *slNode, dt time.Duration) (engine.Node, []V) {
	c := x.clone()
	k := w.w.CA.K
	type pre struct {
		has bool
		rec struct {
			waiting bool
			send    time.Time
		}
		pending []ccv.ConsumerPacketData
		delay   time.Duration
		chanOK  bool
		before  int
		end     time.Time
	}
	pres := map[string]pre{}
	for _, cid := range sortedKeys(c.C) {
		s := c.C[cid]
		rec, has := k.GetSlashRecord(s.Ctx)
		_, ok := k.GetProviderChannel(s.Ctx)
		q := pre{has: has, pending: k.GetPendingPackets(s.Ctx), delay: k.GetConsumerParams(s.Ctx).RetryDelayPeriod, chanOK: ok, before: len(c.L[cid].C2P.Packets), end: s.Time()}
		q.rec.waiting, q.rec.send = rec.WaitingOnReply, rec.SendTime
		pres[cid] = q
	}
	prevP := x.P
	pr, crs := w.w.Wait(c.XNode, dt, true)
	vs := haltViolation("provider", pr)
	if pr.Halt() != "" {
		return nil, vs
	}
	for cid, r := range crs {
		vs = append(vs, haltViolation("consumer", r)...)
		if r.Halt() != "" {
			return nil, vs
		}
		q := pres[cid]
		vs = append(vs, w.judgeSends(c, cid, q.end, q.has, q.rec.waiting, q.rec.send, q.delay, q.pending, q.chanOK, q.before)...)
	}
	vs = append(vs, w.meterStep(c, prevP)...)
	for key := range c.Out {
		// packets relayed during the wait are not itemised here: trust the consumer's flag afterwards
		cid, hx, _ := strings.Cut(key, "/")
		bz, _ := hex.DecodeString(hx)
		if s, ok := c.C[cid]; !ok || !k.OutstandingDowntime(s.Ctx, sdk.ConsAddress(bz)) {
			delete(c.Out, key)
		}
	}
	return c, vs
}

func (w *slWorker) XWorldForTier2() *XWorld { return w.w }
