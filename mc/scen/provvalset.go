package scen

import (
	"bytes"
	"fmt"
	"sort"
	"time"

	"cosmossdk.io/math"

	sdk "github.com/cosmos/cosmos-sdk/types"
	stakingtypes "github.com/cosmos/cosmos-sdk/x/staking/types"

	abci "github.com/cometbft/cometbft/abci/types"

	"verif/mc/engine"
	"verif/mc/env"

	providertypes "github.com/cosmos/interchain-security/v7/x/ccv/provider/types"
)

// ProvValSet is the C15 scenario: staking histories against the provider's own consensus set.
type ProvValSet struct {
	M       int64  // MaxProviderConsensusValidators at genesis
	MaxVals uint32 // staking MaxValidators
}

func (c ProvValSet) Name() string { return "provvalset" }
func (c ProvValSet) Params() map[string]any {
	return map[string]any{"M": c.M, "MaxValidators": c.MaxVals}
}

type pvNode struct {
	S       env.State
	Created bool // extra validator created
}

type pvWorker struct {
	cfg    ProvValSet
	p      *env.Provider
	tab    Table
	root   *pvNode
	stats  *engine.Stats
	rootVs []V
}

func (w *pvWorker) RootViolations() []V { return w.rootVs }

const unit = env.PowerReduction

func (c ProvValSet) NewWorker(stats *engine.Stats) (engine.Worker, error) {
	p, err := env.NewProvider(env.ProviderCfg{
		// powers 3,2,2,1; v1 and v2 tie on power but differ in tokens
		SelfTokens:    []int64{3 * unit, 2 * unit, 2*unit + 400_000, 1 * unit},
		ExtraVals:     1,
		MaxValidators: c.MaxVals,
		MaxProvCons:   c.M,
		MutateGenesis: shortJail,
	})
	if err != nil {
		return nil, err
	}
	w := &pvWorker{cfg: c, p: p, stats: stats}
	w.root = &pvNode{S: p.Root}
	// genesis oracle: InitChain result vs. reference
	w.rootVs = w.checkSet(&p.Root, nil, nil, p.InitVals, true)
	w.build()
	return w, nil
}

func (w *pvWorker) Root() engine.Node              { return w.root }
func (w *pvWorker) Enabled(n engine.Node) []string { return w.tab.Names() }
func (w *pvWorker) Hash(n engine.Node) [32]byte {
	x := n.(*pvNode)
	return x.S.HashStores("provider", "staking", "slashing")
}
func (w *pvWorker) Apply(n engine.Node, ev string) (engine.Node, []V) { return w.tab.Apply(n, ev) }

func (w *pvWorker) tx(name string, mk func(x *pvNode) sdk.Msg, post func(x *pvNode)) {
	w.tab.Add(name, func(n engine.Node) (engine.Node, []V) {
		x := n.(*pvNode)
		msg := mk(x)
		if msg == nil {
			return nil, nil
		}
		c := &pvNode{S: x.S.Branch(), Created: x.Created}
		r := c.S.Deliver(msg)
		if r.Err != nil {
			w.stats.Count("tx-rejected:" + name)
			debugOnce("provvalset:"+name, r.Err)
			return nil, nil // rejected tx: state unchanged, nothing new below
		}
		if post != nil {
			post(c)
		}
		return c, nil
	})
}

func (w *pvWorker) build() {
	p := w.p
	w.tab.Add("block", func(n engine.Node) (engine.Node, []V) { return w.block(n, 5*time.Second) })
	for i := 0; i < 4; i++ {
		v := p.Vals[i]
		w.tx(fmt.Sprintf("delegate(v%d,+1)", i), func(*pvNode) sdk.Msg { return env.MsgDelegate(p.Delegator, v, unit) }, nil)
	}
	for i := 0; i < 4; i++ {
		v := p.Vals[i]
		w.tx(fmt.Sprintf("undelegate(v%d,-1)", i), func(*pvNode) sdk.Msg { return env.MsgUndelegate(v.Oper, v, unit) }, nil)
	}
	w.tab.Add("jail(v0)", func(n engine.Node) (engine.Node, []V) {
		x := n.(*pvNode)
		c := &pvNode{S: x.S.Branch(), Created: x.Created}
		if err := c.S.JailDowntime(p, p.Vals[0]); err != nil {
			return nil, nil
		}
		return c, nil
	})
	w.tx("unjail(v0)", func(*pvNode) sdk.Msg { return env.MsgUnjail(p.Vals[0]) }, nil)
	w.tx("create(v4,2)", func(x *pvNode) sdk.Msg {
		if x.Created {
			return nil
		}
		return env.MsgCreateValidator(p.Vals[4], p.Vals[4].Key, 2*unit)
	}, func(c *pvNode) { c.Created = true })
	w.tx("delegate(v3,+0.5)", func(*pvNode) sdk.Msg { return env.MsgDelegate(p.Delegator, p.Vals[3], unit/2) }, nil)
	for _, m := range []int64{1, 2, 3} {
		m := m
		w.tx(fmt.Sprintf("gov:setM(%d)", m), func(x *pvNode) sdk.Msg {
			params := p.K.GetParams(x.S.Ctx)
			if params.MaxProviderConsensusValidators == m {
				return nil
			}
			params.MaxProviderConsensusValidators = m
			return &providertypes.MsgUpdateParams{Authority: p.GovAddr, Params: params}
		}, nil)
	}
}

func (w *pvWorker) block(n engine.Node, dt time.Duration) (engine.Node, []V) {
	x := n.(*pvNode)
	c := &pvNode{S: x.S.Branch(), Created: x.Created}
	prevRecorded, err := w.p.K.GetLastProviderConsensusValSet(c.S.Ctx)
	var vs []V
	if err != nil {
		vs = append(vs, vf("C15", "recorded-set-unreadable", "%v", err))
	}
	prevEngine := c.S.Engine
	r := c.S.NextBlock(dt, func(s *env.State, r *env.BlockResult) {
		vs = append(vs, w.checkSet(s, prevRecorded, prevEngine, r.ValUpdates, false)...)
	})
	vs = append(vs, haltViolation("provider", r)...)
	if r.Halt() != "" {
		return nil, vs
	}
	return c, vs
}

type refVal struct {
	oper   sdk.ValAddress
	key    string
	power  int64
	tokens math.Int
}

// refTopM recomputes, from the staking store alone, the bonded validators ordered the way the
// staking power index orders them (power descending, operator address ascending) and cut at M.
func refTopM(p *env.Provider, ctx sdk.Context, m int64) ([]refVal, error) {
	all, err := p.PApp.StakingKeeper.GetAllValidators(ctx)
	if err != nil {
		return nil, err
	}
	var out []refVal
	for _, v := range all {
		if v.Status != stakingtypes.Bonded {
			continue
		}
		pk, err := v.CmtConsPublicKey()
		if err != nil {
			return nil, err
		}
		oper, err := sdk.ValAddressFromBech32(v.OperatorAddress)
		if err != nil {
			return nil, err
		}
		out = append(out, refVal{oper: oper, key: env.PubKeyID(&pk), power: v.Tokens.Quo(math.NewInt(unit)).Int64(), tokens: v.Tokens})
	}
	sort.SliceStable(out, func(i, j int) bool {
		if out[i].power != out[j].power {
			return out[i].power > out[j].power
		}
		return bytes.Compare(out[i].oper, out[j].oper) < 0
	})
	if int64(len(out)) > m {
		out = out[:m]
	}
	return out, nil
}

func (w *pvWorker) checkSet(s *env.State, prevRecorded []providertypes.ConsensusValidator, prevEngine env.ValSet, updates []abci.ValidatorUpdate, genesis bool) []V {
	var vs []V
	p := w.p
	ctx := s.Ctx
	m := p.K.GetMaxProviderConsensusValidators(ctx)
	ref, err := refTopM(p, ctx, m)
	if err != nil {
		return []V{vf("HARNESS", "ref-topm", "%v", err)}
	}
	refSet := env.ValSet{}
	for _, r := range ref {
		refSet[r.key] = r.power
	}
	rec, err := p.K.GetLastProviderConsensusValSet(ctx)
	if err != nil {
		return []V{vf("C15", "recorded-set-unreadable", "%v", err)}
	}
	recSet := env.ValSet{}
	for _, v := range rec {
		recSet[env.PubKeyID(v.PublicKey)] = v.Power
	}
	if int64(len(recSet)) > m {
		vs = append(vs, vf("C15", "recorded-exceeds-M", "recorded set has %d validators, M=%d", len(recSet), m))
	}
	if !recSet.Equal(refSet) {
		vs = append(vs, vf("C15", "recorded!=topM", "recorded provider consensus set %v != top-%d bonded validators %v (height %d)", recSet, m, refSet, s.Height()))
	}
	if !s.Engine.Equal(recSet) {
		vs = append(vs, vf("C15", "engine!=recorded", "consensus engine holds %v, provider recorded %v (height %d)", s.Engine, recSet, s.Height()))
	}
	if !genesis {
		// returned updates must be exactly diff(previous recorded, new recorded)
		prev := env.ValSet{}
		for _, v := range prevRecorded {
			prev[env.PubKeyID(v.PublicKey)] = v.Power
		}
		want := map[string]int64{}
		for k, pw := range recSet {
			if q, ok := prev[k]; !ok || q != pw {
				want[k] = pw
			}
		}
		for k := range prev {
			if _, ok := recSet[k]; !ok {
				want[k] = 0
			}
		}
		got := map[string]int64{}
		dup := false
		for _, u := range updates {
			id := env.PubKeyID(&u.PubKey)
			if _, ok := got[id]; ok {
				dup = true
			}
			got[id] = u.Power
		}
		if dup || !env.ValSet(got).Equal(env.ValSet(want)) {
			vs = append(vs, vf("C15", "updates!=diff", "returned updates %v, expected diff %v (prev %v, new %v)", env.ValSet(got), env.ValSet(want), prev, recSet))
		}
		w.stats.Count(fmt.Sprintf("updates:%d", len(got)))
	}
	w.stats.Count(fmt.Sprintf("setsize:%d", len(recSet)))
	if int64(len(ref)) == m {
		w.stats.Count("cut-at-M")
	}

	// staking views exposed to governance / mint
	var iter []string
	tot := math.ZeroInt()
	err = p.K.IterateBondedValidatorsByPower(ctx, func(_ int64, v stakingtypes.ValidatorI) bool {
		iter = append(iter, v.GetOperator())
		return false
	})
	if err != nil {
		vs = append(vs, vf("C15", "view-iterate-error", "%v", err))
	}
	var refOpers []string
	for _, r := range ref {
		refOpers = append(refOpers, r.oper.String())
		tot = tot.Add(r.tokens)
	}
	if fmt.Sprint(iter) != fmt.Sprint(refOpers) {
		vs = append(vs, vf("C15", "view-iterate", "IterateBondedValidatorsByPower yields %v, consensus validators are %v", iter, refOpers))
	}
	got, err := p.K.TotalBondedTokens(ctx)
	if err != nil || !got.Equal(tot) {
		vs = append(vs, vf("C15", "view-total-bonded", "TotalBondedTokens=%v err=%v, reference %v", got, err, tot))
	}
	supply := p.PApp.BankKeeper.GetSupply(ctx, env.BondDenom).Amount
	ratio, err := p.K.BondedRatio(ctx)
	wantRatio := math.LegacyZeroDec()
	if supply.IsPositive() {
		wantRatio = math.LegacyNewDecFromInt(tot).QuoInt(supply)
	}
	if err != nil || !ratio.Equal(wantRatio) {
		vs = append(vs, vf("C15", "view-bonded-ratio", "BondedRatio=%v err=%v, reference %v", ratio, err, wantRatio))
	}
	// the view as the assembled app's inflation module sees it
	mintRatio, err := p.PApp.MintKeeper.BondedRatio(ctx)
	if err != nil || !mintRatio.Equal(wantRatio) {
		vs = append(vs, vf("C15", "view-mint-bonded-ratio", "the mint module's BondedRatio=%v err=%v, reference over the consensus validators %v", mintRatio, err, wantRatio))
	}
	return vs
}

func (w *pvWorker) ProviderForTier2() *env.Provider { return w.p }
