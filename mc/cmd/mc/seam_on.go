//go:build seam

package main

import (
	"verif/mc/scen"

	"github.com/cosmos/interchain-security/v7/x/ccv/verifseam"
)

// seamCtl owns the iteration order of every instrumented map range. The C18 units run with a
// single worker per process, so a process-global controller is enough.
type seamCtl struct {
	rec   []scen.SeamOcc
	occ   int
	perm  []int
	count int
}

func (c *seamCtl) Begin(occ int, perm []int) {
	c.rec, c.occ, c.perm, c.count = nil, occ, perm, 0
}

func (c *seamCtl) End() []scen.SeamOcc { r := c.rec; c.rec = nil; return r }

func init() {
	c := &seamCtl{occ: -1}
	verifseam.Choose = func(site string, n int) []int {
		i := c.count
		c.count++
		c.rec = append(c.rec, scen.SeamOcc{Site: site, N: n})
		if i == c.occ && len(c.perm) == n {
			return c.perm
		}
		return nil
	}
	scen.Seam = c
	forceSingleWorker = true
}
