package scen

import (
	"fmt"
	"sort"
	"strings"
	"time"

	sdk "github.com/cosmos/cosmos-sdk/types"
	stakingtypes "github.com/cosmos/cosmos-sdk/x/staking/types"

	"verif/mc/engine"
	"verif/mc/env"

	providertypes "github.com/cosmos/interchain-security/v7/x/ccv/provider/types"
)

// Keys is the C05 / C06 scenario (provider only): key assignments on a launched, a
// registered-then-launching and a stopped consumer, validator creation/removal, time around the
// pruning deadline, against a map-based reference model kept in the node.
type Keys struct {
	Variant string // "base"
}

func (c Keys) Name() string           { return "keys" }
func (c Keys) Params() map[string]any { return map[string]any{"Variant": c.Variant} }

type knownEnt struct {
	Owner  int   // validator index
	Expiry int64 // unix nanos; 0 = current key (no expiry)
}

// keyModel: per consumer, which keys must resolve to whom.
type keyModel struct {
	Cur   map[string]map[int]string      // consumer -> validator -> key name
	Known map[string]map[string]knownEnt // consumer -> key name -> entry
}

func (m keyModel) clone() keyModel {
	o := keyModel{Cur: map[string]map[int]string{}, Known: map[string]map[string]knownEnt{}}
	for c, x := range m.Cur {
		o.Cur[c] = map[int]string{}
		for k, v := range x {
			o.Cur[c][k] = v
		}
	}
	for c, x := range m.Known {
		o.Known[c] = map[string]knownEnt{}
		for k, v := range x {
			o.Known[c][k] = v
		}
	}
	return o
}

func (m keyModel) digest() string {
	var parts []string
	for c, x := range m.Known {
		for k, e := range x {
			parts = append(parts, fmt.Sprintf("%s/%s=%d@%d", c, k, e.Owner, e.Expiry))
		}
	}
	sort.Strings(parts)
	return strings.Join(parts, ";")
}

type keysNode struct {
	S       env.State
	M       keyModel
	Created string // key name used to create v3 ("" = not created)
	Removed map[int]bool
}

func (n *keysNode) child() *keysNode {
	r := map[int]bool{}
	for k, v := range n.Removed {
		r[k] = v
	}
	return &keysNode{S: n.S.Branch(), M: n.M.clone(), Created: n.Created, Removed: r}
}

type keysWorker struct {
	variant string
	p       *env.Provider
	tab     Table
	root    *keysNode
	stats   *engine.Stats
	rootVs  []V
	pool    map[string]env.ConsKey
	names   []string
	cons    []string // consumer ids: L="0", R="1", S="2"
	U       time.Duration
}

func (c Keys) NewWorker(stats *engine.Stats) (engine.Worker, error) {
	p, err := env.NewProvider(env.ProviderCfg{
		SelfTokens: []int64{3 * unit, 2 * unit, 2 * unit}, ExtraVals: 1, Users: 2, MutateGenesis: shortJail,
	})
	if err != nil {
		return nil, err
	}
	w := &keysWorker{variant: c.Variant, p: p, stats: stats, pool: map[string]env.ConsKey{}, U: p.Cfg.Unbonding, cons: []string{"2", "10", "3"}}
	w.pool["k1"] = env.NewConsKey("k1")
	w.pool["k2"] = env.NewConsKey("k2")
	w.pool["pk0"] = p.Vals[0].Key
	w.pool["pk1"] = p.Vals[1].Key
	w.pool["pk3"] = p.Vals[3].Key
	w.names = []string{"k1", "k2", "pk0", "pk1", "pk3"}

	st := p.Root.Branch()
	user := p.Users[0].Addr.String()
	mk := func(chain string, spawn time.Time, optin []int) error {
		if r := st.Deliver(env.MsgCreateConsumer(user, chain, env.ConsumerInit{Spawn: spawn}.Params(chain), nil)); r.Err != nil {
			return r.Err
		}
		return nil
	}
	// ids matter (prune entries sort by (len(id), id), consumers are walked by plain id): L="2", S="3", R="10";
	// the other ids are registered dummies. L and S launch at the first block boundary, R 12 s later.
	for i := 0; i <= 10; i++ {
		var err error
		switch i {
		case 2:
			err = mk("chain-L", st.Time(), nil)
		case 3:
			err = mk("chain-S", st.Time(), nil)
		case 10:
			err = mk("chain-R", st.Time().Add(12*time.Second), nil)
		default:
			err = mk("chain-dummy", time.Time{}, nil)
		}
		if err != nil {
			return nil, err
		}
	}
	for _, cid := range w.cons {
		for _, vi := range []int{0, 1, 2} {
			if r := st.Deliver(env.MsgOptIn(p.Vals[vi], cid, nil)); r.Err != nil {
				return nil, r.Err
			}
		}
	}
	w.root = &keysNode{S: st, M: keyModel{Cur: map[string]map[int]string{}, Known: map[string]map[string]knownEnt{}}, Removed: map[int]bool{}}
	for _, cid := range append(append([]string{}, w.cons...), "4") {
		w.root.M.Cur[cid] = map[int]string{}
		w.root.M.Known[cid] = map[string]knownEnt{}
	}
	n, vs := w.block(w.root, 5*time.Second)
	w.rootVs = vs
	if n == nil {
		return nil, fmt.Errorf("prefix block: %v", vs)
	}
	x := n.(*keysNode)
	// stop S
	if r := x.S.Deliver(env.MsgRemoveConsumer(user, "3")); r.Err != nil {
		return nil, fmt.Errorf("stop S: %w", r.Err)
	}
	for _, cid := range []string{"2"} {
		if ph := p.K.GetConsumerPhase(x.S.Ctx, cid); ph != providertypes.CONSUMER_PHASE_LAUNCHED {
			return nil, fmt.Errorf("consumer %s phase %v", cid, ph)
		}
	}
	w.root = x
	w.build()
	if c.Variant == "removal" {
		// v1 is on its way out (all stake unbonding since t0) and uses k1 on the launched consumer; the
		// search starts 10 s later, so that a replacement made now outlives the validator's removal
		for _, ev := range []string{"unbond-all(v1)", "assign(v1,c2,k1)", "block(5s)", "block(5s)"} {
			nn, vs := w.tab.Apply(w.root, ev)
			w.rootVs = append(w.rootVs, vs...)
			if nn == nil {
				return nil, fmt.Errorf("removal prefix: %s failed", ev)
			}
			w.root = nn.(*keysNode)
		}
	}
	return w, nil
}

func (w *keysWorker) RootViolations() []V            { return w.rootVs }
func (w *keysWorker) Root() engine.Node              { return w.root }
func (w *keysWorker) Enabled(n engine.Node) []string { return w.tab.Names() }
func (w *keysWorker) Apply(n engine.Node, ev string) (engine.Node, []V) {
	return w.tab.Apply(n, ev)
}
func (w *keysWorker) Hash(n engine.Node) [32]byte {
	x := n.(*keysNode)
	h := x.S.HashStores("provider", "staking", "slashing")
	return mix(h, x.M.digest()+"|"+x.Created)
}

func (w *keysWorker) build() {
	p := w.p
	dts := []time.Duration{5 * time.Second, w.U - 5*time.Second, w.U}
	assigns := []struct {
		vi   int
		cid  string
		keys []string
	}{{0, "2", w.names}, {0, "10", w.names}, {1, "2", []string{"k1", "k2", "pk0"}}}
	if w.variant == "removal" {
		dts = []time.Duration{5 * time.Second, w.U - 10*time.Second, w.U}
		assigns = assigns[:0]
		assigns = append(assigns, struct {
			vi   int
			cid  string
			keys []string
		}{0, "2", []string{"k1", "k2"}}, struct {
			vi   int
			cid  string
			keys []string
		}{1, "2", []string{"k1", "k2"}}, struct {
			vi   int
			cid  string
			keys []string
		}{2, "2", []string{"k1"}}, struct {
			vi   int
			cid  string
			keys []string
		}{1, "4", []string{"k2"}}) // a registered consumer that never launches (no light client)
	}
	for _, dt := range dts {
		dt := dt
		w.tab.Add(fmt.Sprintf("block(%s)", dt), func(n engine.Node) (engine.Node, []V) { return w.block(n, dt) })
	}
	for _, a := range assigns {
		for _, kn := range a.keys {
			vi, cid, kn := a.vi, a.cid, kn
			w.tab.Add(fmt.Sprintf("assign(v%d,c%s,%s)", vi, cid, kn), func(n engine.Node) (engine.Node, []V) {
				return w.assign(n, vi, cid, kn, false)
			})
		}
	}
	w.tab.Add("optin(v1,c10,k2)", func(n engine.Node) (engine.Node, []V) { return w.assign(n, 1, "10", "k2", true) })
	for _, kn := range []string{"pk3", "k1", "k2"} {
		kn := kn
		w.tab.Add(fmt.Sprintf("create(v3,%s)", kn), func(n engine.Node) (engine.Node, []V) { return w.create(n, kn) })
	}
	w.tab.Add("unbond-all(v1)", func(n engine.Node) (engine.Node, []V) {
		x := n.(*keysNode)
		val, err := p.PApp.StakingKeeper.GetValidator(x.S.Ctx, p.Vals[1].ValAddr())
		if err != nil || val.Tokens.IsZero() {
			return nil, nil
		}
		c := x.child()
		if r := c.S.Deliver(env.MsgUndelegate(p.Vals[1].Oper, p.Vals[1], val.Tokens.Int64())); r.Err != nil {
			return nil, nil
		}
		return c, w.invariants(c, "tx")
	})
	w.tab.Add("stop(c2)", func(n engine.Node) (engine.Node, []V) {
		x := n.(*keysNode)
		c := x.child()
		if r := c.S.Deliver(env.MsgRemoveConsumer(p.Users[0].Addr.String(), "2")); r.Err != nil {
			return nil, nil
		}
		return c, w.invariants(c, "tx")
	})
}

func (w *keysWorker) active(ctx sdk.Context, cid string) bool {
	return w.p.K.IsConsumerActive(ctx, cid)
}

// mustKnown: does the model require key kn to be attributed on consumer cid at time now?
func (w *keysWorker) mustKnown(m keyModel, cid, kn string, now time.Time) (knownEnt, bool) {
	e, ok := m.Known[cid][kn]
	if !ok {
		return e, false
	}
	if e.Expiry == 0 || now.UnixNano() < e.Expiry {
		return e, true
	}
	return e, false
}

func (w *keysWorker) provKeyOwner(ctx sdk.Context, k env.ConsKey) (string, bool) {
	v, err := w.p.PApp.StakingKeeper.GetValidatorByConsAddr(ctx, k.ConsAddr())
	if err != nil {
		return "", false
	}
	return v.OperatorAddress, true
}

func (w *keysWorker) assign(n engine.Node, vi int, cid, kn string, viaOptIn bool) (engine.Node, []V) {
	x := n.(*keysNode)
	p := w.p
	if x.Removed[vi] {
		return nil, nil
	}
	ctx := x.S.Ctx
	key := w.pool[kn]
	v := p.Vals[vi]
	now := x.S.Time()
	// statement's must-reject conditions, from the model and the staking store
	mustReject := ""
	if oper, ok := w.provKeyOwner(ctx, key); ok && oper != v.ValAddr().String() {
		mustReject = "provider-key-of-another-validator"
	}
	ownerGone := false
	if e, ok := w.mustKnown(x.M, cid, kn, now); ok {
		mustReject = "current-or-recently-replaced-key-on-this-consumer"
		ownerGone = x.Removed[e.Owner]
	}
	c := x.child()
	var msg sdk.Msg = env.MsgAssignKey(v, cid, key)
	if viaOptIn {
		msg = env.MsgOptIn(v, cid, &key)
	}
	r := c.S.Deliver(msg)
	w.stats.Count(fmt.Sprintf("assign:mustReject=%v,accepted=%v", mustReject != "", r.Err == nil))
	if r.Err != nil {
		debugOnce("keys:assign:"+kn, r.Err)
		if ownerGone {
			w.stats.Count("replaced-key-of-removed-validator-still-reserved")
		}
		return nil, nil
	}
	var vs []V
	if mustReject != "" {
		vs = append(vs, vf("C05", "forbidden-assignment-accepted:"+mustReject, "assign(v%d, consumer %s, %s) was accepted although the key is %s", vi, cid, kn, mustReject))
	}
	// model update
	launched := p.K.GetConsumerPhase(ctx, cid) == providertypes.CONSUMER_PHASE_LAUNCHED
	if old, ok := c.M.Cur[cid][vi]; ok {
		if launched {
			c.M.Known[cid][old] = knownEnt{Owner: vi, Expiry: now.Add(w.U).UnixNano()}
			w.stats.Count("replaced-on-launched")
		} else {
			delete(c.M.Known[cid], old)
			w.stats.Count("replaced-before-launch")
		}
	}
	c.M.Cur[cid][vi] = kn
	c.M.Known[cid][kn] = knownEnt{Owner: vi}
	vs = append(vs, w.invariants(c, "tx")...)
	return c, vs
}

func (w *keysWorker) create(n engine.Node, kn string) (engine.Node, []V) {
	x := n.(*keysNode)
	if x.Created != "" {
		return nil, nil
	}
	p := w.p
	now := x.S.Time()
	mustReject := ""
	for _, cid := range w.cons {
		if !w.active(x.S.Ctx, cid) {
			continue
		}
		if _, ok := w.mustKnown(x.M, cid, kn, now); ok {
			mustReject = "key known on active consumer " + cid
		}
	}
	c := x.child()
	r := c.S.Deliver(env.MsgCreateValidator(p.Vals[3], w.pool[kn], 2*unit))
	w.stats.Count(fmt.Sprintf("create:mustReject=%v,accepted=%v", mustReject != "", r.Err == nil))
	if r.Err != nil {
		debugOnce("keys:create:"+kn, r.Err)
		return nil, nil
	}
	var vs []V
	if mustReject != "" {
		vs = append(vs, vf("C05", "validator-created-with-known-key", "validator v3 created with consensus key %s: %s", kn, mustReject))
	}
	c.Created = kn
	vs = append(vs, w.invariants(c, "tx")...)
	return c, vs
}

func (w *keysWorker) block(n engine.Node, dt time.Duration) (engine.Node, []V) {
	x := n.(*keysNode)
	c := x.child()
	var vs []V
	r := c.S.NextBlock(dt, func(s *env.State, r *env.BlockResult) {
		// validators removed by this EndBlock: the statement does not say what happens to their
		// keys (the code forgets the current ones at once); don't-care from here on
		w.dropRemoved(c, s)
		// committed state of the ended block: keys replaced less than U ago must still resolve
		vs = append(vs, w.resolveCheck(c, s, "end-of-block")...)
	})
	vs = append(vs, haltViolation("provider", r)...)
	if r.Halt() != "" {
		return nil, vs
	}
	// model maintenance from observable facts: consumers deleted by this BeginBlock
	for _, cid := range w.cons {
		if w.p.K.GetConsumerPhase(c.S.Ctx, cid) == providertypes.CONSUMER_PHASE_DELETED && len(c.M.Known[cid])+len(c.M.Cur[cid]) > 0 {
			c.M.Known[cid] = map[string]knownEnt{}
			c.M.Cur[cid] = map[int]string{}
			w.stats.Count("consumer-deleted")
		}
	}
	vs = append(vs, w.invariants(c, "block")...)
	return c, vs
}

func (w *keysWorker) dropRemoved(c *keysNode, s *env.State) {
	for vi := range w.p.Vals {
		if c.Removed[vi] || (vi == 3 && c.Created == "") {
			continue
		}
		if _, err := w.p.PApp.StakingKeeper.GetValidator(s.Ctx, w.p.Vals[vi].ValAddr()); err != nil {
			c.Removed[vi] = true
			w.stats.Count("validator-removed")
			// the keys it currently used are forgotten at once by the code and the statement does not
			// say otherwise (it is no longer a provider validator): don't-care. Keys it had *replaced*
			// less than an unbonding period ago stay attributed and reserved, as the statement says.
			for _, cid := range w.cons {
				delete(c.M.Cur[cid], vi)
				for k, e := range c.M.Known[cid] {
					if e.Owner == vi && e.Expiry == 0 {
						delete(c.M.Known[cid], k)
					}
				}
			}
		}
	}
}

// resolveCheck (C06): every key the model says must be attributed resolves to its owner.
func (w *keysWorker) resolveCheck(c *keysNode, s *env.State, when string) []V {
	var vs []V
	p := w.p
	now := s.Time()
	for _, cid := range w.cons {
		for kn := range c.M.Known[cid] {
			e, must := w.mustKnown(c.M, cid, kn, now)
			if !must {
				continue
			}
			got := p.K.GetProviderAddrFromConsumerAddr(s.Ctx, cid, providertypes.NewConsumerConsAddress(w.pool[kn].ConsAddr()))
			want := p.Vals[e.Owner].ConsAddr()
			if !got.ToSdkConsAddr().Equals(want) {
				kind := "current"
				if e.Expiry != 0 {
					kind = "replaced"
					w.stats.Count("checked-replaced-key-resolution")
				}
				vs = append(vs, vf("C06", "key-not-attributed:"+kind, "consumer %s: %s key %s must resolve to v%d until %s but resolves to %s at %s (%s)", cid, kind, kn, e.Owner, time.Unix(0, e.Expiry).UTC().Format(time.RFC3339), got.ToSdkConsAddr(), now.Format(time.RFC3339), when))
			} else if e.Expiry != 0 {
				w.stats.Count("checked-replaced-key-resolution")
			}
		}
		// never-assigned keys resolve to the validator owning them as provider key
		for _, kn := range []string{"pk0", "pk1"} {
			if _, known := c.M.Known[cid][kn]; known {
				continue
			}
			got := p.K.GetProviderAddrFromConsumerAddr(s.Ctx, cid, providertypes.NewConsumerConsAddress(w.pool[kn].ConsAddr()))
			if !got.ToSdkConsAddr().Equals(w.pool[kn].ConsAddr()) {
				// a key that used to be known and was pruned also lands here: identity expected too
				vs = append(vs, vf("C06", "unassigned-key-not-identity", "consumer %s: never-assigned key %s resolves to %s", cid, kn, got.ToSdkConsAddr()))
			}
		}
	}
	return vs
}

// invariants: C05 injectivity from the store + C06 resolution.
func (w *keysWorker) invariants(c *keysNode, when string) []V {
	p := w.p
	ctx := c.S.Ctx
	vs := w.resolveCheck(c, &c.S, when)
	all, err := p.PApp.StakingKeeper.GetAllValidators(ctx)
	if err != nil {
		return append(vs, vf("HARNESS", "staking", "%v", err))
	}
	provKey := map[string]string{} // cons addr -> operator
	for _, v := range all {
		ca, _ := v.GetConsAddr()
		provKey[sdk.ConsAddress(ca).String()] = v.OperatorAddress
	}
	operOf := func(provCons []byte) string {
		if o, ok := provKey[sdk.ConsAddress(provCons).String()]; ok {
			return o
		}
		return "removed:" + sdk.ConsAddress(provCons).String()
	}
	// C02 ("its consensus key is the key it assigned for that consumer or else its provider key"): a key
	// assignment must belong to an existing validator — a record that outlives its validator would be
	// inherited by whoever later registers that consensus address
	next, _ := p.K.GetConsumerId(ctx)
	for i := uint64(0); i < next; i++ {
		cid := fmt.Sprint(i)
		if !w.active(ctx, cid) {
			continue
		}
		cc := cid
		for _, e := range p.K.GetAllValidatorConsumerPubKeys(ctx, &cc) {
			if _, ok := provKey[sdk.ConsAddress(e.ProviderAddr).String()]; !ok {
				vs = append(vs, vf("C02", "assignment-outlives-validator", "consumer %s (%s) still holds a key assignment of %s, which is no longer a validator (%s)", cid, p.K.GetConsumerPhase(ctx, cid), sdk.ConsAddress(e.ProviderAddr), when))
			}
		}
	}
	for _, cid := range w.cons {
		if !w.active(ctx, cid) {
			continue
		}
		rel := map[string]map[string]bool{} // key addr -> set of owners
		add := func(keyAddr, owner, why string) {
			if rel[keyAddr] == nil {
				rel[keyAddr] = map[string]bool{}
			}
			rel[keyAddr][owner] = true
		}
		for a, o := range provKey {
			add(a, o, "provider key")
		}
		cc := cid
		for _, e := range p.K.GetAllValidatorConsumerPubKeys(ctx, &cc) {
			ca, err := tmKeyAddr(e)
			if err != nil {
				continue
			}
			add(ca, operOf(e.ProviderAddr), "current assignment")
		}
		for _, e := range p.K.GetAllValidatorsByConsumerAddr(ctx, &cc) {
			add(sdk.ConsAddress(e.ConsumerAddr).String(), operOf(e.ProviderAddr), "index")
		}
		for k, owners := range rel {
			if len(owners) > 1 {
				vs = append(vs, vf("C05", "key-with-two-owners", "consumer %s: consensus key (addr %s) is associated with %d validators: %v (%s)", cid, k, len(owners), sortedKeys(owners), when))
			}
		}
	}
	return vs
}

func tmKeyAddr(e providertypes.ValidatorConsumerPubKey) (string, error) {
	pk := e.ConsumerKey
	if pk == nil {
		return "", fmt.Errorf("nil key")
	}
	if ed := pk.GetEd25519(); ed != nil {
		return sdk.ConsAddress(edAddr(ed)).String(), nil
	}
	return "", fmt.Errorf("unsupported key")
}

var _ = stakingtypes.Bonded

func (w *keysWorker) ProviderForTier2() *env.Provider { return w.p }
