package scen

import (
	"fmt"
	"time"

	sdk "github.com/cosmos/cosmos-sdk/types"
	channeltypes "github.com/cosmos/ibc-go/v10/modules/core/04-channel/types"

	"verif/mc/engine"
	"verif/mc/env"

	providertypes "github.com/cosmos/interchain-security/v7/x/ccv/provider/types"
	ccv "github.com/cosmos/interchain-security/v7/x/ccv/types"
)

// HandshakeRace is the second C17 scenario: the CCV channel handshake is driven step by step through
// ibc-go's real core message server on both chains (MsgChannelOpenInit / Try / Ack / Confirm, proofs
// answered by the proof oracle), with relayers racing: a consumer may initiate several channels, a
// relayer may answer one INIT with several TRYs, acknowledgements and confirmations arrive in any
// order and interleave with provider epochs, consumer blocks and packet relay. A second consumer
// with its own connection is there so that a step can be aimed at the wrong chain's channel.
type HandshakeRace struct{}

func (c HandshakeRace) Name() string           { return "hsrace" }
func (c HandshakeRace) Params() map[string]any { return map[string]any{} }

type hrP struct {
	ID   string // provider-side channel id
	CP   int    // index of the consumer-side channel it answers
	Open bool
}

type hrC struct {
	ID    string
	Acked bool
}

// hrSide is the handshake bookkeeping of one consumer.
type hrSide struct {
	CCh []hrC
	PCh []hrP
	// Adopted: the consumer-side channel on which the first VSC packet arrived ("" = none yet)
	Adopted string
}

type hrNode struct {
	*XNode
	S map[string]hrSide
}

func (n *hrNode) clone() *hrNode {
	o := &hrNode{XNode: n.XNode.Clone(), S: map[string]hrSide{}}
	for k, v := range n.S {
		o.S[k] = hrSide{CCh: append([]hrC{}, v.CCh...), PCh: append([]hrP{}, v.PCh...), Adopted: v.Adopted}
	}
	return o
}

// limits keep the second consumer's part of the race small
var hrMaxInit = map[string]int{"0": 2, "1": 1}
var hrMaxTry = map[string]int{"0": 3, "1": 1}

type hrWorker struct {
	w      *XWorld
	p      *env.Provider
	tab    Table
	root   *hrNode
	stats  *engine.Stats
	rootVs []V
	hs     *hsWorker // for the bijection oracle
}

func (c HandshakeRace) NewWorker(stats *engine.Stats) (engine.Worker, error) {
	p, err := env.NewProvider(env.ProviderCfg{SelfTokens: []int64{3 * unit, 2 * unit, 1 * unit}, Users: 1, BlocksPerEpoch: 1})
	if err != nil {
		return nil, err
	}
	xw := &XWorld{P: p, CA: env.NewConsumerApp(), Stats: stats, Delay: 1}
	w := &hrWorker{w: xw, p: p, stats: stats, hs: &hsWorker{p: p}}
	st := p.Root.Branch()
	A := p.Users[0].Addr.String()
	for _, chain := range []string{"cons-x", "cons-y"} {
		ci := env.ConsumerInit{Spawn: st.Time(), Unbonding: 900 * time.Second}
		if r := st.Deliver(env.MsgCreateConsumer(A, chain, ci.Params(chain), nil)); r.Err != nil {
			return nil, r.Err
		}
	}
	for _, id := range []string{"0", "1"} {
		for _, vi := range []int{0, 1} {
			if r := st.Deliver(env.MsgOptIn(p.Vals[vi], id, nil)); r.Err != nil {
				return nil, r.Err
			}
		}
	}
	n := &hrNode{XNode: &XNode{P: st, C: map[string]env.State{}, L: map[string]env.Link{}}, S: map[string]hrSide{"0": {}, "1": {}}}
	if r := xw.PBlock(n.XNode, 0, nil); r.Halt() != "" {
		return nil, fmt.Errorf("prefix block: %s", r.Halt())
	}
	pk, ck := p.PApp.IBCKeeper, xw.CA.CApp.IBCKeeper
	for _, cid := range []string{"0", "1"} {
		if p.K.GetConsumerPhase(n.P.Ctx, cid) != providertypes.CONSUMER_PHASE_LAUNCHED {
			return nil, fmt.Errorf("fixture: consumer %s not launched", cid)
		}
		if _, err := xw.Boot(n.XNode, cid); err != nil {
			return nil, fmt.Errorf("boot %s: %w", cid, err)
		}
		n.touchP()
		n.touchC(cid)
		pp, cc, l := n.P, n.C[cid], n.L[cid]
		if err := env.CoreOpenConnection(&pp, pk, &cc, ck, &l); err != nil {
			return nil, fmt.Errorf("connection %s: %w", cid, err)
		}
		n.P, n.C[cid], n.L[cid] = pp, cc, l
	}
	w.root = n
	w.rootVs = w.hs.bijection(&hsNode{XNode: n.XNode}, "fixture")
	w.build()
	return w, nil
}

func (w *hrWorker) RootViolations() []V            { return w.rootVs }
func (w *hrWorker) Root() engine.Node              { return w.root }
func (w *hrWorker) Enabled(n engine.Node) []string { return w.tab.Names() }
func (w *hrWorker) Apply(n engine.Node, ev string) (engine.Node, []V) {
	return w.tab.Apply(n, ev)
}
func (w *hrWorker) Hash(n engine.Node) [32]byte {
	x := n.(*hrNode)
	return w.w.hashNode(x.XNode, fmt.Sprint(x.S["0"], x.S["1"]))
}

// judge: the relations of the statement, evaluated in every state.
func (w *hrWorker) judge(c *hrNode, when string) []V {
	p := w.p
	vs := w.hs.bijection(&hsNode{XNode: c.XNode}, when)
	for _, cid := range []string{"0", "1"} {
		sd := c.S[cid]
		// the provider completed the handshake for at most one channel of a consumer
		open := 0
		for _, pc := range sd.PCh {
			ch, ok := p.PApp.IBCKeeper.ChannelKeeper.GetChannel(c.P.Ctx, ccv.ProviderPortID, pc.ID)
			if ok && ch.State == channeltypes.OPEN {
				open++
			}
		}
		if open > 1 {
			vs = append(vs, vf("C17", "two-open-ccv-channels", "%s: the provider holds %d OPEN CCV channels to consumer %s", when, open, cid))
		}
		// the channel the consumer adopted is the counterparty of the channel the provider bound to it
		if prov, ok := w.w.CA.K.GetProviderChannel(c.C[cid].Ctx); ok {
			bound, has := p.K.GetConsumerIdToChannelId(c.P.Ctx, cid)
			if !has {
				vs = append(vs, vf("C17", "consumer-adopted-unbound-channel", "%s: consumer %s adopted channel %s but the provider bound no channel to it", when, cid, prov))
			} else if ch, ok := p.PApp.IBCKeeper.ChannelKeeper.GetChannel(c.P.Ctx, ccv.ProviderPortID, bound); !ok || ch.Counterparty.ChannelId != prov {
				vs = append(vs, vf("C17", "consumer-adopted-other-channel", "%s: consumer %s adopted channel %s, the provider's channel %s points to %s", when, cid, prov, bound, ch.Counterparty.ChannelId))
			}
			if sd.Adopted != "" && prov != sd.Adopted {
				vs = append(vs, vf("C17", "consumer-changed-channel", "%s: consumer %s first received provider packets on %s, now names %s", when, cid, sd.Adopted, prov))
			}
		} else if sd.Adopted != "" {
			vs = append(vs, vf("C17", "consumer-forgot-channel", "%s: consumer %s received provider packets on %s but has no provider channel", when, cid, sd.Adopted))
		}
	}
	// packets for consumer 0 leave only on the channel bound to it
	for cid, l := range c.L {
		for _, q := range l.P2C.Packets {
			if back, ok := p.K.GetChannelIdToConsumerId(c.P.Ctx, q.P.SourceChannel); !ok || back != cid {
				vs = append(vs, vf("C17", "packet-on-foreign-channel", "%s: packet on channel %s is attributed to consumer %q, link of consumer %s", when, q.P.SourceChannel, back, cid))
			}
		}
	}
	return vs
}

func (w *hrWorker) build() {
	p := w.p
	pk, ck := p.PApp.IBCKeeper, w.w.CA.CApp.IBCKeeper
	w.tab.Add("P.block", func(n engine.Node) (engine.Node, []V) {
		c := n.(*hrNode).clone()
		r := w.w.PBlock(c.XNode, 0, nil)
		vs := haltViolation("provider", r)
		if r.Halt() != "" {
			return nil, vs
		}
		return c, append(vs, w.judge(c, "P.block")...)
	})
	w.tab.Add("C0.block", func(n engine.Node) (engine.Node, []V) {
		c := n.(*hrNode).clone()
		r := w.w.CBlock(c.XNode, "0", 0, nil)
		vs := haltViolation("consumer", r)
		if r.Halt() != "" {
			return nil, vs
		}
		return c, append(vs, w.judge(c, "C0.block")...)
	})
	w.tab.Add("delegate(v1,+1)", func(n engine.Node) (engine.Node, []V) {
		c := n.(*hrNode).clone()
		c.touchP()
		if r := c.P.Deliver(env.MsgDelegate(p.Delegator, p.Vals[1], unit)); r.Err != nil {
			return nil, nil
		}
		return c, nil
	})
	for _, cid := range []string{"0", "1"} {
		cid := cid
		if cid == "1" {
			w.tab.Add("C1.block", func(n engine.Node) (engine.Node, []V) {
				c := n.(*hrNode).clone()
				r := w.w.CBlock(c.XNode, "1", 0, nil)
				vs := haltViolation("consumer", r)
				if r.Halt() != "" {
					return nil, vs
				}
				return c, append(vs, w.judge(c, "C1.block")...)
			})
		}
		w.tab.Add("deliver(P->C"+cid+")", func(n engine.Node) (engine.Node, []V) {
			x := n.(*hrNode)
			if len(x.L[cid].P2C.Packets) == 0 {
				return nil, nil
			}
			c := x.clone()
			del, res := w.w.DeliverP2C(c.XNode, cid, 1)
			if len(del) == 0 {
				return nil, nil
			}
			var vs []V
			if res[0].Panic != "" {
				return nil, []V{vf("C19", "panic:recv-vsc", "%s", res[0].Panic)}
			}
			if !res[0].Success {
				vs = append(vs, vf("C17", "provider-packet-refused", "a VSC packet on the bound channel %s got the acknowledgement %s", del[0].P.DestinationChannel, res[0].Ack))
			}
			sd := c.S[cid]
			if sd.Adopted == "" {
				sd.Adopted = del[0].P.DestinationChannel
				c.S[cid] = sd
			}
			w.stats.Count("vsc-delivered-after-race")
			return c, append(vs, w.judge(c, "deliver")...)
		})
		w.tab.Add("C"+cid+".init", func(n engine.Node) (engine.Node, []V) {
			x := n.(*hrNode)
			if len(x.S[cid].CCh) >= hrMaxInit[cid] {
				return nil, nil
			}
			c := x.clone()
			c.touchC(cid)
			cc := c.C[cid]
			_, hasProv := w.w.CA.K.GetProviderChannel(cc.Ctx)
			id, err := env.CoreChanOpenInit(&cc, ck, &c.P, ccv.ConsumerPortID, ccv.ProviderPortID, channeltypes.ORDERED, []string{c.L[cid].CConn}, ccv.Version)
			w.stats.Count(fmt.Sprintf("core-init:want=%v,accepted=%v", !hasProv, err == nil))
			if (err == nil) == hasProv {
				return nil, []V{vf("C17", "consumer-init-acceptance:core", "MsgChannelOpenInit on consumer %s with provider channel established=%v: accepted=%v (%v)", cid, hasProv, err == nil, err)}
			}
			if err != nil {
				return nil, nil
			}
			c.C[cid] = cc
			sd := c.S[cid]
			sd.CCh = append(sd.CCh, hrC{ID: id})
			c.S[cid] = sd
			return c, w.judge(c, "C.init")
		})
		// a relayer answers consumer channel #i with a TRY on the provider over the consumer's own
		// connection, or (consumer 0 only) over the *other* consumer's connection: the claim is then
		// checked against the other chain, where an equally named channel may or may not exist
		vias := []string{cid}
		if cid == "0" {
			vias = []string{"0", "1"}
		}
		for i := 0; i < hrMaxInit[cid]; i++ {
			for _, via := range vias {
				i, via := i, via
				w.tab.Add(fmt.Sprintf("P.try(C%s#%d,conn=c%s)", cid, i, via), func(n engine.Node) (engine.Node, []V) {
					x := n.(*hrNode)
					if i >= len(x.S[cid].CCh) || len(x.S[cid].PCh) >= hrMaxTry[cid] {
						return nil, nil
					}
					// a TRY over connection c<via> builds a channel to chain <via>: it is that consumer's
					tgt := via
					c := x.clone()
					c.touchP()
					pp := c.P
					_, has := p.K.GetConsumerIdToChannelId(pp.Ctx, tgt)
					peer := c.C[tgt]
					chName := x.S[cid].CCh[i].ID
					// core: the chain behind the connection must hold that channel in INIT, over the matching connection
					cEnd, found := ck.ChannelKeeper.GetChannel(peer.Ctx, ccv.ConsumerPortID, chName)
					provable := found && cEnd.State == channeltypes.INIT
					want := provable && !has
					id, err := env.CoreChanOpenTry(&pp, pk, &peer, ccv.ProviderPortID, ccv.ConsumerPortID, chName, channeltypes.ORDERED, []string{c.L[via].PConn}, ccv.Version)
					w.stats.Count(fmt.Sprintf("core-try:want=%v,accepted=%v", want, err == nil))
					if (err == nil) != want {
						return nil, []V{vf("C17", fmt.Sprintf("try-acceptance:core:want=%v", want), "MsgChannelOpenTry for channel %s over the connection of consumer %s (provable=%v, that consumer bound=%v): accepted=%v (%v)", chName, via, provable, has, err == nil, err)}
					}
					if err != nil {
						return nil, nil
					}
					c.P = pp
					// the new provider channel belongs to the race of the chain it points to
					idx := -1
					for k, cc := range c.S[tgt].CCh {
						if cc.ID == chName {
							idx = k
						}
					}
					sd := c.S[tgt]
					sd.PCh = append(sd.PCh, hrP{ID: id, CP: idx})
					c.S[tgt] = sd
					return c, w.judge(c, "P.try")
				})
			}
		}
		for j := 0; j < hrMaxTry[cid]+1; j++ {
			j := j
			w.tab.Add(fmt.Sprintf("C%s.ack(P#%d)", cid, j), func(n engine.Node) (engine.Node, []V) {
				x := n.(*hrNode)
				if j >= len(x.S[cid].PCh) {
					return nil, nil
				}
				pc := x.S[cid].PCh[j]
				cch := x.S[cid].CCh[pc.CP]
				c := x.clone()
				c.touchC(cid)
				cc := c.C[cid]
				_, hasProv := w.w.CA.K.GetProviderChannel(cc.Ctx)
				pch, _ := pk.ChannelKeeper.GetChannel(c.P.Ctx, ccv.ProviderPortID, pc.ID)
				err := env.CoreChanOpenAck(&cc, ck, &c.P, ccv.ConsumerPortID, cch.ID, pc.ID, pch.Version)
				// core refuses a second acknowledgement of the same consumer channel; the module refuses once
				// the provider channel is established
				want := !cch.Acked && !hasProv
				w.stats.Count(fmt.Sprintf("core-ack:want=%v,accepted=%v", want, err == nil))
				if (err == nil) != want {
					return nil, []V{vf("C17", fmt.Sprintf("ack-acceptance:core:want=%v", want), "MsgChannelOpenAck of channel %s on consumer %s for provider channel %s (already acked=%v, provider channel established=%v): accepted=%v (%v)", cch.ID, cid, pc.ID, cch.Acked, hasProv, err == nil, err)}
				}
				if err != nil {
					return nil, nil
				}
				c.C[cid] = cc
				c.S[cid].CCh[pc.CP].Acked = true
				return c, w.judge(c, "C.ack")
			})
			w.tab.Add(fmt.Sprintf("P.confirm(C%s#%d)", cid, j), func(n engine.Node) (engine.Node, []V) {
				x := n.(*hrNode)
				if j >= len(x.S[cid].PCh) || x.S[cid].PCh[j].Open {
					return nil, nil
				}
				pc := x.S[cid].PCh[j]
				c := x.clone()
				c.touchP()
				pp := c.P
				_, has := p.K.GetConsumerIdToChannelId(pp.Ctx, cid)
				// core: the consumer's end must be OPEN and point at this very provider channel
				cEnd, _ := ck.ChannelKeeper.GetChannel(c.C[cid].Ctx, ccv.ConsumerPortID, x.S[cid].CCh[pc.CP].ID)
				provable := cEnd.State == channeltypes.OPEN && cEnd.Counterparty.ChannelId == pc.ID
				want := provable && !has
				peer := c.C[cid]
				err := env.CoreChanOpenConfirm(&pp, pk, &peer, ccv.ProviderPortID, pc.ID)
				w.stats.Count(fmt.Sprintf("core-confirm:want=%v,accepted=%v", want, err == nil))
				if (err == nil) != want {
					return nil, []V{vf("C17", fmt.Sprintf("confirm-acceptance:core:want=%v", want), "MsgChannelOpenConfirm of provider channel %s to consumer %s (consumer end open and pointing here=%v, consumer already bound=%v): accepted=%v (%v)", pc.ID, cid, provable, has, err == nil, err)}
				}
				if err != nil {
					return nil, nil
				}
				c.P = pp
				c.S[cid].PCh[j].Open = true
				l := c.L[cid]
				l.PChan, l.CChan, l.Stage = pc.ID, x.S[cid].CCh[pc.CP].ID, 4
				c.L[cid] = l
				return c, w.judge(c, "P.confirm")
			})
		}
	}
	// the provider never opens a channel itself (opened from the consumer side only)
	w.tab.Add("P.init(core)", func(n engine.Node) (engine.Node, []V) {
		x := n.(*hrNode)
		pp := x.P.Branch()
		peer := x.C["0"]
		_, err := env.CoreChanOpenInit(&pp, pk, &peer, ccv.ProviderPortID, ccv.ConsumerPortID, channeltypes.ORDERED, []string{x.L["0"].PConn}, ccv.Version)
		w.stats.Count(fmt.Sprintf("core-provider-init:accepted=%v", err == nil))
		if err == nil {
			return nil, []V{vf("C17", "provider-initiated-handshake", "MsgChannelOpenInit on the provider port was accepted")}
		}
		return nil, nil
	})
}

var _ sdk.Msg

func (w *hrWorker) XWorldForTier2() *XWorld { return w.w }
