#!/bin/sh
# Builds the model checker against the current /repo tree (warms the Go build cache).
set -e
cd /verif
. ./goenv.sh
cp /repo/go.sum mc/go.sum
mkdir -p bin evidence replays
(cd mc && go build -o /verif/bin/mc ./cmd/mc)
/verif/bin/mc list >/dev/null
# C18: build the seam tool and warm the build cache for the overlay build
(cd seamtool && go build -o /verif/bin/seamtool .)
seam=/var/tmp/verif-seam-setup-$$
/verif/bin/seamtool -repo /repo -out "$seam" ./x/ccv/... >/dev/null
(cd mc && go build -overlay "$seam/overlay.json" -tags seam -o /verif/bin/mc-seam ./cmd/mc)
rm -rf "$seam"
echo "setup ok"
