package scen

import (
	"encoding/json"
	"time"

	"verif/mc/engine"
)

func init() {
	registerScenario("authz", func(bz json.RawMessage) (engine.Scenario, error) {
		var c Authz
		if err := json.Unmarshal(bz, &c); err != nil {
			return nil, err
		}
		return c, nil
	})
	register("C14", func(tier string) CheckSpec {
		depth, budget := 2, 200*time.Second
		if tier == "thorough" {
			depth, budget = 3, 20*time.Minute
		}
		return CheckSpec{Level: "model_checking", Rule: searchRule + "; the alphabet is the whole message matrix (message type x sender x consumer x variant), so every message is judged in every reached state", Assumptions: append([]string{
			"the authenticated sender of a message is the signer the app's signing context derives from it (GetMsgV1Signers); signature verification itself is not exercised",
		}, commonAssumptions...), Budget: budget,
			Units: []Unit{Search{Sc: Authz{Variant: "base"}, Depth: depth}},
			MustSee: []string{"update:by-non-owner", "update:by-owner-accepted", "remove:by-non-owner", "remove:by-owner-accepted", "params:by-non-gov", "params:by-gov-accepted",
				"denoms:by-non-gov", "denoms:by-gov-accepted", "valmsg:by-other", "valmsg:by-operator-accepted", "ownership-transferred", "state-with-topn"}}
	})
}
