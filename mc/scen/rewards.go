package scen

import (
	"encoding/json"
	"fmt"
	"strings"
	"time"

	"cosmossdk.io/math"

	sdk "github.com/cosmos/cosmos-sdk/types"
	authtypes "github.com/cosmos/cosmos-sdk/x/auth/types"
	banktypes "github.com/cosmos/cosmos-sdk/x/bank/types"
	distrtypes "github.com/cosmos/cosmos-sdk/x/distribution/types"
	minttypes "github.com/cosmos/cosmos-sdk/x/mint/types"
	transfertypes "github.com/cosmos/ibc-go/v10/modules/apps/transfer/types"
	channeltypes "github.com/cosmos/ibc-go/v10/modules/core/04-channel/types"

	"verif/mc/engine"
	"verif/mc/env"

	appConsumer "github.com/cosmos/interchain-security/v7/app/consumer"
	consumertypes "github.com/cosmos/interchain-security/v7/x/ccv/consumer/types"
	providertypes "github.com/cosmos/interchain-security/v7/x/ccv/provider/types"
	ccv "github.com/cosmos/interchain-security/v7/x/ccv/types"
)

// Rewards is the C16 scenario: fees on a consumer, the split, the periodic transfer, the credit on
// the provider and the payout to the consumer's validators.
type Rewards struct {
	Fraction string
	Period   int64
	Dup      bool   // the consumer's reward-denom list names the fee denom twice (parameter validation allows it)
	Cap      uint32 // validators-power-cap of the consumer (0 = none)
	// Prov: the consumer also forwards two provider-originated denoms (ProviderRewardDenoms); only the
	// consumer side is driven (fees in three denoms, blocks): one transfer per allowed denom must leave
	Prov bool
}

func (c Rewards) Name() string { return "rewards" }
func (c Rewards) Params() map[string]any {
	m := map[string]any{"Fraction": c.Fraction, "Period": c.Period}
	if c.Dup {
		m["Dup"] = true
	}
	if c.Cap > 0 {
		m["Cap"] = c.Cap
	}
	if c.Prov {
		m["Prov"] = true
	}
	return m
}

type rwNode struct {
	*XNode
	InFlight int64 // base units of the reward denom escrowed on the consumer and not yet minted on the provider
	Closed   bool
	// Join is the harness's own ledger of when validator i entered consumer 0's validator set (block
	// height, 0 = not a member), kept from observed membership changes: eligibility for rewards is judged
	// against it, not against the join height the provider stores
	Join [4]int64
}

func (n *rwNode) clone() *rwNode {
	return &rwNode{XNode: n.XNode.Clone(), InFlight: n.InFlight, Closed: n.Closed, Join: n.Join}
}

// observeJoins updates the ledger from the stored set: a validator seen for the first time joined at
// height h; one no longer in the set starts over when it comes back.
func (w *rwWorker) observeJoins(n *rwNode, ctx sdk.Context, h int64) {
	set, _ := w.p.K.GetConsumerValSet(ctx, "0")
	for i, v := range w.p.Vals[:4] {
		in := false
		for _, cv := range set {
			if sdk.ConsAddress(cv.ProviderConsAddr).Equals(v.ConsAddr()) {
				in = true
			}
		}
		if !in {
			n.Join[i] = 0
		} else if n.Join[i] == 0 {
			n.Join[i] = h
		}
	}
}

type rwWorker struct {
	cfg    Rewards
	w      *XWorld
	p      *env.Provider
	tab    Table
	root   *rwNode
	stats  *engine.Stats
	rootVs []V
	payer  env.Acct
	ibcD   string // the consumer's fee denom as it is called on the provider
	seeded int64  // voucher coins minted by the fixture for consumer 1's credit
}

const feeDenom, otherDenom = "stake", "unotallowed"

func (c Rewards) NewWorker(stats *engine.Stats) (engine.Worker, error) {
	// three validators of equal power: thirds do not terminate, so truncation dust shows
	p, err := env.NewProvider(env.ProviderCfg{SelfTokens: []int64{2 * unit, 2 * unit, 2 * unit, 2 * unit}, Users: 1, RewardEpochs: 2})
	if err != nil {
		return nil, err
	}
	w := &rwWorker{cfg: c, p: p, stats: stats, payer: env.NewAcct("payer")}
	xw := &XWorld{P: p, CA: env.NewConsumerApp(), Stats: stats, Delay: 1}
	xw.ConsumerGenesis = func(g *consumertypes.GenesisState) {
		g.Params.RewardDenoms = []string{feeDenom}
		if c.Dup {
			g.Params.RewardDenoms = []string{feeDenom, feeDenom}
		}
		if c.Prov {
			g.Params.ProviderRewardDenoms = provDenoms
		}
	}
	xw.AppGenesis = []func(map[string]json.RawMessage){func(g map[string]json.RawMessage) {
		cdc := appConsumer.MakeTestEncodingConfig().Codec
		// account 0 is the relayer (it signs the IBC messages of the conformance replay), account 1 pays fees
		rel := authtypes.NewBaseAccount(env.Relayer.Addr, env.Relayer.Priv.PubKey(), 0, 0)
		acc := authtypes.NewBaseAccount(w.payer.Addr, w.payer.Priv.PubKey(), 1, 0)
		g[authtypes.ModuleName] = cdc.MustMarshalJSON(authtypes.NewGenesisState(authtypes.DefaultParams(), []authtypes.GenesisAccount{rel, acc}))
		coins := sdk.NewCoins(sdk.NewInt64Coin(feeDenom, 1_000_000_000), sdk.NewInt64Coin(otherDenom, 1_000_000_000))
		if c.Prov {
			// vouchers of two provider denoms (as if received over the transfer channel the consumer will
			// open), with their denomination traces known to the transfer module
			tg := transfertypes.DefaultGenesisState()
			for _, d := range provDenoms {
				coins = coins.Add(sdk.NewInt64Coin(provIBCDenom(d), 1_000_000_000))
				tg.Denoms = append(tg.Denoms, transfertypes.NewDenom(d, transfertypes.NewHop("transfer", "channel-1")))
			}
			g[transfertypes.ModuleName] = cdc.MustMarshalJSON(tg)
		}
		g[banktypes.ModuleName] = cdc.MustMarshalJSON(banktypes.NewGenesisState(banktypes.DefaultParams(), []banktypes.Balance{{Address: w.payer.Addr.String(), Coins: coins}}, nil, nil, nil))
	}}
	w.w = xw
	st := p.Root.Branch()
	A := p.Users[0].Addr.String()
	must := func(s *env.State, m sdk.Msg) error {
		if r := s.Deliver(m); r.Err != nil {
			return fmt.Errorf("%T: %w", m, r.Err)
		}
		return nil
	}
	ci := env.ConsumerInit{Spawn: st.Time(), Fraction: c.Fraction, BlocksPerTx: c.Period}
	var ps0 *providertypes.PowerShapingParameters
	if c.Cap > 0 {
		ps0 = &providertypes.PowerShapingParameters{ValidatorsPowerCap: c.Cap}
	}
	if err := must(&st, env.MsgCreateConsumer(A, "cons-r", ci.Params("cons-r"), ps0)); err != nil {
		return nil, err
	}
	for _, vi := range []int{0, 1, 2} { // v3 joins later (event): not yet eligible when it does
		if err := must(&st, env.MsgOptIn(p.Vals[vi], "0", nil)); err != nil {
			return nil, err
		}
	}
	if err := must(&st, env.MsgSetCommission(p.Vals[0], "0", "0.5")); err != nil {
		return nil, err
	}
	// a second launched consumer that will hold a credit in the same denom without allow-listing it
	if err := must(&st, env.MsgCreateConsumer(A, "cons-s", env.ConsumerInit{Spawn: st.Time()}.Params("cons-s"), nil)); err != nil {
		return nil, err
	}
	if err := must(&st, env.MsgOptIn(p.Vals[0], "1", nil)); err != nil {
		return nil, err
	}
	n := &rwNode{XNode: &XNode{P: st, C: map[string]env.State{}, L: map[string]env.Link{}}}
	if r := xw.PBlock(n.XNode, 0, nil); r.Halt() != "" {
		return nil, fmt.Errorf("prefix block: %s", r.Halt())
	}
	// the launch-time validators joined in the block whose BeginBlock launched the consumer
	w.observeJoins(n, n.P.Ctx, n.P.Height())
	if _, err := xw.Boot(n.XNode, "0"); err != nil {
		return nil, fmt.Errorf("boot: %w", err)
	}
	if err := xw.Open(n.XNode, "0"); err != nil {
		return nil, fmt.Errorf("open: %w", err)
	}
	if err := xw.OpenTransfer(n.XNode, "0"); err != nil {
		return nil, fmt.Errorf("open transfer: %w", err)
	}
	if c.Prov && n.L["0"].XCChan != "channel-1" {
		return nil, fmt.Errorf("fixture: the consumer's reward channel is %s, the provider-denom vouchers were minted for channel-1", n.L["0"].XCChan)
	}
	w.ibcD = ccv.ParseDenomTrace(ccv.GetPrefixedDenom("transfer", n.L["0"].XPChan, feeDenom)).IBCDenom()
	n.touchP()
	if err := must(&n.P, &providertypes.MsgUpdateConsumer{Owner: A, ConsumerId: "0", AllowlistedRewardDenoms: &providertypes.AllowlistedRewardDenoms{Denoms: []string{w.ibcD}}}); err != nil {
		return nil, err
	}
	// a few provider blocks so that v0, v1 are past the eligibility delay
	for i := 0; i < 3; i++ {
		h := n.P.Height()
		if r := xw.PBlock(n.XNode, 0, nil); r.Halt() != "" {
			return nil, fmt.Errorf("prefix block: %s", r.Halt())
		}
		w.observeJoins(n, n.P.Ctx, h)
	}
	n.touchP()
	other := sdk.NewCoins(sdk.NewInt64Coin(w.ibcD, 55))
	ibcD := w.ibcD
	if err, pan := n.P.Raw("fixture-credit", func(app env.ABCIApp, ctx sdk.Context) error {
		pa := env.PA(app)
		if err := pa.BankKeeper.MintCoins(ctx, minttypes.ModuleName, other); err != nil {
			return err
		}
		if err := pa.BankKeeper.SendCoinsFromModuleToModule(ctx, minttypes.ModuleName, providertypes.ConsumerRewardsPool, other); err != nil {
			return err
		}
		return pa.ProviderKeeper.SetConsumerRewardsAllocationByDenom(ctx, "1", ibcD, providertypes.ConsumerRewardsAllocation{Rewards: sdk.NewDecCoinsFromCoins(other...)})
	}); err != nil || pan != "" {
		return nil, fmt.Errorf("fixture credit: %v %s", err, pan)
	}
	w.seeded = 55
	w.root = n
	w.build()
	return w, nil
}

func (w *rwWorker) RootViolations() []V            { return w.rootVs }
func (w *rwWorker) Root() engine.Node              { return w.root }
func (w *rwWorker) Enabled(n engine.Node) []string { return w.tab.Names() }
func (w *rwWorker) Apply(n engine.Node, ev string) (engine.Node, []V) {
	return w.tab.Apply(n, ev)
}
func (w *rwWorker) Hash(n engine.Node) [32]byte {
	x := n.(*rwNode)
	h := w.w.hashNode(x.XNode, fmt.Sprint(x.InFlight, x.Closed, x.Join))
	a := x.P.HashStores("bank", "distribution")
	b := x.C["0"].HashStores("bank")
	return mix(h, string(a[:])+string(b[:]))
}

func (w *rwWorker) cbal(ctx sdk.Context, module, denom string) math.Int {
	addr := authtypes.NewModuleAddress(module)
	return w.w.CA.CApp.BankKeeper.GetBalance(ctx, addr, denom).Amount
}

var provDenoms = []string{"pdenoma", "pdenomb"}

// provIBCDenom is the voucher denom of a provider denom on the consumer (the reward-transmission
// channel is the second channel the consumer opens: channel-1; checked in the fixture).
func provIBCDenom(d string) string {
	return ccv.ParseDenomTrace(ccv.GetPrefixedDenom("transfer", "channel-1", d)).IBCDenom()
}

// cblockProv judges a consumer block of the Prov variant: per allowed denom with a positive
// provider share, exactly one transfer leaves when a transmission is due.
func (w *rwWorker) cblockProv(x *rwNode) (engine.Node, []V) {
	c := x.clone()
	pre := x.C["0"]
	k := w.w.CA.K
	allowed := []string{feeDenom, provIBCDenom(provDenoms[0]), provIBCDenom(provDenoms[1])}
	frac := math.LegacyMustNewDecFromStr(k.GetConsumerRedistributionFrac(pre.Ctx))
	due := pre.Height()-k.GetLastTransmissionBlockHeight(pre.Ctx).Height >= k.GetBlocksPerDistributionTransmission(pre.Ctx)
	want := map[string]math.Int{}
	for _, d := range allowed {
		fees := w.cbal(pre.Ctx, authtypes.FeeCollectorName, d)
		want[d] = w.cbal(pre.Ctx, consumertypes.ConsumerToSendToProviderName, d).Add(fees.Sub(frac.MulInt(fees).TruncateInt()))
	}
	before := len(c.L["0"].XC2P.Packets)
	r := w.w.CBlock(c.XNode, "0", 0, nil)
	vs := haltViolation("consumer", r)
	if r.Halt() != "" {
		return nil, vs
	}
	sent := map[string]math.Int{}
	for _, q := range c.L["0"].XC2P.Packets[before:] {
		var d transfertypes.FungibleTokenPacketData
		if err := transfertypes.ModuleCdc.UnmarshalJSON(q.P.Data, &d); err != nil {
			continue
		}
		amt, _ := math.NewIntFromString(d.Amount)
		den := ccv.ParseDenomTrace(d.Denom).IBCDenom()
		if d.Denom == feeDenom {
			den = feeDenom
		}
		if _, dup := sent[den]; dup {
			vs = append(vs, vf("C16", "transfer-count", "two transfer packets for denom %s in one transmission", d.Denom))
		}
		sent[den] = amt
	}
	for _, d := range allowed {
		got, ok := sent[d]
		switch {
		case due && want[d].IsPositive():
			if !ok || !got.Equal(want[d]) {
				vs = append(vs, vf("C16", "provider-share-not-sent", "transmission due: %s of %s should have left, sent %v (found=%v)", want[d], d, got, ok))
			}
			w.stats.Count("rewards-sent:multi-denom")
		case ok:
			vs = append(vs, vf("C16", "sent-before-period", "%s of %s sent although nothing was due", got, d))
		}
	}
	if len(sent) >= 2 {
		w.stats.Count("two-denoms-in-one-transmission")
	}
	return c, vs
}

func (w *rwWorker) build() {
	p := w.p
	if w.cfg.Prov {
		for _, f := range []struct {
			amt   int64
			denom string
		}{{10, feeDenom}, {4, provIBCDenom(provDenoms[0])}, {6, provIBCDenom(provDenoms[1])}} {
			f := f
			w.tab.Add(fmt.Sprintf("C.fee(%d%s)", f.amt, f.denom), func(n engine.Node) (engine.Node, []V) {
				c := n.(*rwNode).clone()
				c.touchC("0")
				s := c.C["0"]
				payer := w.payer.Addr
				err, _ := s.Raw("fee-deduction", func(app env.ABCIApp, ctx sdk.Context) error {
					return app.(*appConsumer.App).BankKeeper.SendCoinsFromAccountToModule(ctx, payer, authtypes.FeeCollectorName, sdk.NewCoins(sdk.NewInt64Coin(f.denom, f.amt)))
				})
				if err != nil {
					return nil, nil
				}
				c.C["0"] = s
				return c, nil
			})
		}
		w.tab.Add("C.block", func(n engine.Node) (engine.Node, []V) { return w.cblockProv(n.(*rwNode)) })
		return
	}
	for _, f := range []struct {
		amt   int64
		denom string
	}{{10, feeDenom}, {3, feeDenom}, {100, feeDenom}, {999, feeDenom}, {7, otherDenom}} {
		f := f
		w.tab.Add(fmt.Sprintf("C.fee(%d%s)", f.amt, f.denom), func(n engine.Node) (engine.Node, []V) {
			c := n.(*rwNode).clone()
			c.touchC("0")
			s := c.C["0"]
			// what the ante handler's fee deduction does
			payer := w.payer.Addr
			err, _ := s.Raw("fee-deduction", func(app env.ABCIApp, ctx sdk.Context) error {
				return app.(*appConsumer.App).BankKeeper.SendCoinsFromAccountToModule(ctx, payer, authtypes.FeeCollectorName, sdk.NewCoins(sdk.NewInt64Coin(f.denom, f.amt)))
			})
			if err != nil {
				return nil, nil
			}
			c.C["0"] = s
			return c, nil
		})
	}
	w.tab.Add("C.block", func(n engine.Node) (engine.Node, []V) { return w.cblock(n.(*rwNode)) })
	w.tab.Add("P.block", func(n engine.Node) (engine.Node, []V) { return w.pblock(n.(*rwNode)) })
	w.tab.Add("deliver(xfer)", func(n engine.Node) (engine.Node, []V) { return w.deliver(n.(*rwNode)) })
	w.tab.Add("ack(xfer)", func(n engine.Node) (engine.Node, []V) {
		c := n.(*rwNode).clone()
		a, err, pan := w.w.AckXfer(c.XNode, "0")
		if pan != "" {
			return nil, []V{vf("C19", "panic:xfer-ack", "%s", pan)}
		}
		if a == nil || err != nil {
			return nil, nil
		}
		return c, w.conservation(c, "ack")
	})
	w.tab.Add("wait(1h+)", func(n engine.Node) (engine.Node, []V) {
		x := n.(*rwNode)
		c := x.clone()
		before := len(c.L["0"].XC2P.Packets)
		hEnded := c.P.Height()
		pr, crs := w.w.Wait(c.XNode, time.Hour+time.Second, true)
		w.observeJoins(c, c.P.Ctx, hEnded)
		vs := haltViolation("provider", pr)
		for _, r := range crs {
			vs = append(vs, haltViolation("consumer", r)...)
		}
		if pr.Halt() != "" {
			return nil, vs
		}
		for _, q := range c.L["0"].XC2P.Packets[before:] {
			var d transfertypes.FungibleTokenPacketData
			if err := transfertypes.ModuleCdc.UnmarshalJSON(q.P.Data, &d); err == nil {
				amt, _ := math.NewIntFromString(d.Amount)
				c.InFlight += amt.Int64()
			}
		}
		return c, append(vs, w.conservation(c, "wait")...)
	})
	w.tab.Add("timeout(xfer)", func(n engine.Node) (engine.Node, []V) {
		x := n.(*rwNode)
		l := x.L["0"]
		if len(l.XC2P.Packets) == 0 {
			return nil, nil
		}
		pk := l.XC2P.Packets[0]
		if pk.P.TimeoutTimestamp == 0 || uint64(x.P.Time().UnixNano()) < pk.P.TimeoutTimestamp {
			return nil, nil // the provider's clock has not passed the packet's timeout
		}
		c := x.clone()
		c.touchC("0")
		cs := c.C["0"]
		preSend := w.cbal(cs.Ctx, consumertypes.ConsumerToSendToProviderName, feeDenom)
		_, err, pan := w.w.netTimeout(&cs, w.w.CA.CApp.IBCKeeper, &c.P, w.w.P.PApp.IBCKeeper, pk.P)
		if pan != "" {
			return nil, []V{vf("C19", "panic:xfer-timeout", "%s", pan)}
		}
		if err != nil {
			return nil, nil
		}
		ll := c.L["0"]
		ll.XC2P.Packets = ll.XC2P.Packets[1:]
		c.C["0"], c.L["0"] = cs, ll
		var d transfertypes.FungibleTokenPacketData
		_ = transfertypes.ModuleCdc.UnmarshalJSON(pk.P.Data, &d)
		amt, _ := math.NewIntFromString(d.Amount)
		c.InFlight -= amt.Int64()
		var vs []V
		if got := w.cbal(cs.Ctx, consumertypes.ConsumerToSendToProviderName, feeDenom).Sub(preSend); !got.Equal(amt) {
			vs = append(vs, vf("C16", "timed-out-rewards-not-returned", "a reward transfer of %s timed out: the to-send account got %s back", amt, got))
		}
		w.stats.Count("transfer-timed-out")
		return c, append(vs, w.conservation(c, "timeout")...)
	})
	w.tab.Add("close(xfer)", func(n engine.Node) (engine.Node, []V) {
		x := n.(*rwNode)
		if x.Closed {
			return nil, nil
		}
		c := x.clone()
		c.touchC("0")
		s := c.C["0"]
		xc := c.L["0"].XCChan
		if err, _ := s.Raw("counterparty-closed-transfer-channel", func(app env.ABCIApp, ctx sdk.Context) error {
			ck := env.IBCK(app).ChannelKeeper
			ch, ok := ck.GetChannel(ctx, "transfer", xc)
			if !ok {
				return fmt.Errorf("no channel")
			}
			ch.State = channeltypes.CLOSED
			ck.SetChannel(ctx, "transfer", xc, ch)
			return nil
		}); err != nil {
			return nil, nil
		}
		c.C["0"] = s
		c.Closed = true
		return c, nil
	})
	ptx := func(name string, mk func(x *rwNode) sdk.Msg) {
		w.tab.Add(name, func(n engine.Node) (engine.Node, []V) {
			x := n.(*rwNode)
			msg := mk(x)
			if msg == nil {
				return nil, nil
			}
			c := x.clone()
			c.touchP()
			if r := c.P.Deliver(msg); r.Err != nil {
				return nil, nil
			}
			return c, nil
		})
	}
	ptx("optin(v3)", func(x *rwNode) sdk.Msg {
		if p.K.IsOptedIn(x.P.Ctx, "0", p.Vals[3].PAddr()) {
			return nil
		}
		return env.MsgOptIn(p.Vals[3], "0", nil)
	})
	ptx("optout(v1)", func(*rwNode) sdk.Msg { return env.MsgOptOut(p.Vals[1], "0") })
	w.tab.Add("turnover(c0)", func(n engine.Node) (engine.Node, []V) {
		// the whole validator set of consumer 0 is replaced at the next epoch: v0..v2 leave, v3 joins, so the
		// next payout finds a non-empty set in which nobody is eligible yet
		x := n.(*rwNode)
		c := x.clone()
		c.touchP()
		done := 0
		for _, vi := range []int{0, 1, 2} {
			if c.P.Deliver(env.MsgOptOut(p.Vals[vi], "0")).Err == nil {
				done++
			}
		}
		if !p.K.IsOptedIn(c.P.Ctx, "0", p.Vals[3].PAddr()) && c.P.Deliver(env.MsgOptIn(p.Vals[3], "0", nil)).Err == nil {
			done++
		}
		if done == 0 {
			return nil, nil
		}
		return c, nil
	})
	ptx("commission(v1,0.9)", func(*rwNode) sdk.Msg { return env.MsgSetCommission(p.Vals[1], "0", "0.9") })
	ptx("update(no allowed denoms)", func(x *rwNode) sdk.Msg {
		ds, _ := p.K.GetAllowlistedRewardDenoms(x.P.Ctx, "0")
		if len(ds) == 0 {
			return nil
		}
		return &providertypes.MsgUpdateConsumer{Owner: p.Users[0].Addr.String(), ConsumerId: "0", AllowlistedRewardDenoms: &providertypes.AllowlistedRewardDenoms{}}
	})
	ptx("gov:register denom", func(x *rwNode) sdk.Msg {
		if p.K.ConsumerRewardDenomExists(x.P.Ctx, w.ibcD) {
			return nil
		}
		return &providertypes.MsgChangeRewardDenoms{Authority: p.GovAddr, DenomsToAdd: []string{w.ibcD}}
	})
}

// conservation: what is escrowed on the consumer equals what exists on the provider plus what is in flight.
func (w *rwWorker) conservation(c *rwNode, when string) []V {
	l := c.L["0"]
	escrow := w.w.CA.CApp.BankKeeper.GetBalance(c.C["0"].Ctx, transfertypes.GetEscrowAddress("transfer", l.XCChan), feeDenom).Amount
	minted := w.p.PApp.BankKeeper.GetSupply(c.P.Ctx, w.ibcD).Amount.SubRaw(w.seeded)
	if !escrow.Equal(minted.AddRaw(c.InFlight)) {
		return []V{vf("C16", "cross-chain-conservation", "%s: %s escrowed on the consumer, %s exist on the provider, %d in flight", when, escrow, minted, c.InFlight)}
	}
	return nil
}

func (w *rwWorker) cblock(x *rwNode) (engine.Node, []V) {
	c := x.clone()
	pre := x.C["0"]
	k := w.w.CA.K
	var vs []V
	fees := map[string]math.Int{}
	preRed, preSend := map[string]math.Int{}, map[string]math.Int{}
	for _, d := range []string{feeDenom, otherDenom} {
		fees[d] = w.cbal(pre.Ctx, authtypes.FeeCollectorName, d)
		preRed[d] = w.cbal(pre.Ctx, consumertypes.ConsumerRedistributeName, d)
		preSend[d] = w.cbal(pre.Ctx, consumertypes.ConsumerToSendToProviderName, d)
	}
	frac := math.LegacyMustNewDecFromStr(k.GetConsumerRedistributionFrac(pre.Ctx))
	period := k.GetBlocksPerDistributionTransmission(pre.Ctx)
	last := k.GetLastTransmissionBlockHeight(pre.Ctx).Height
	due := pre.Height()-last >= period
	preSupply := w.w.CA.CApp.BankKeeper.GetSupply(pre.Ctx, feeDenom).Amount
	before := len(c.L["0"].XC2P.Packets)
	r := w.w.CBlock(c.XNode, "0", 0, nil)
	vs = append(vs, haltViolation("consumer", r)...)
	if r.Halt() != "" {
		return nil, vs
	}
	post := c.C["0"]
	sent := c.L["0"].XC2P.Packets[before:]
	sentAmt := math.ZeroInt()
	for _, q := range sent {
		var d transfertypes.FungibleTokenPacketData
		if err := transfertypes.ModuleCdc.UnmarshalJSON(q.P.Data, &d); err != nil {
			vs = append(vs, vf("C16", "undecodable-transfer", "%v", err))
			continue
		}
		amt, _ := math.NewIntFromString(d.Amount)
		sentAmt = sentAmt.Add(amt)
		if d.Denom != feeDenom {
			vs = append(vs, vf("C16", "sent-disallowed-denom", "consumer sent %s %s to the provider; allowed reward denoms are [%s]", d.Amount, d.Denom, feeDenom))
		}
		if _, err := ccv.GetRewardMemoFromTransferMemo(d.Memo); err != nil {
			vs = append(vs, vf("C16", "no-reward-memo", "reward transfer without the reward memo: %q", d.Memo))
		}
		if d.Receiver != w.p.K.GetConsumerRewardsPoolAddressStr(c.P.Ctx) {
			vs = append(vs, vf("C16", "wrong-receiver", "reward transfer to %s", d.Receiver))
		}
	}
	c.InFlight += sentAmt.Int64()
	for _, d := range []string{feeDenom, otherDenom} {
		if got := w.cbal(post.Ctx, authtypes.FeeCollectorName, d); !got.IsZero() {
			vs = append(vs, vf("C16", "fee-collector-not-emptied", "%s %s left in the fee collector after the block", got, d))
		}
		wantRed := frac.MulInt(fees[d]).TruncateInt()
		if got := w.cbal(post.Ctx, consumertypes.ConsumerRedistributeName, d).Sub(preRed[d]); !got.Equal(wantRed) {
			vs = append(vs, vf("C16", "consumer-share", "fees %s%s, fraction %s: the consumer's share grew by %s, expected %s (rounded down)", fees[d], d, frac, got, wantRed))
		}
		wantSend := preSend[d].Add(fees[d].Sub(wantRed))
		shouldSend := due && !x.Closed && d == feeDenom
		gotSend := w.cbal(post.Ctx, consumertypes.ConsumerToSendToProviderName, d)
		if shouldSend {
			if !gotSend.IsZero() || !sentAmt.Equal(wantSend) {
				vs = append(vs, vf("C16", "provider-share-not-sent", "transmission due, channel open: to-send account holds %s %s after the block and %s were sent, expected all %s to leave", gotSend, d, sentAmt, wantSend))
			}
			if wantSend.IsPositive() {
				w.stats.Count("rewards-sent")
				if len(sent) != 1 {
					vs = append(vs, vf("C16", "transfer-count", "%d transfer packets for one denom", len(sent)))
				}
			}
		} else if !gotSend.Equal(wantSend) {
			vs = append(vs, vf("C16", "provider-share", "to-send account holds %s %s, expected %s (previous %s + fees %s - consumer share %s); due=%v closed=%v", gotSend, d, wantSend, preSend[d], fees[d], wantRed, due, x.Closed))
		}
	}
	if !due && len(sent) > 0 {
		vs = append(vs, vf("C16", "sent-before-period", "rewards sent %d blocks after the last transmission (period %d)", pre.Height()-last, period))
	}
	if x.Closed && len(sent) > 0 {
		vs = append(vs, vf("C16", "sent-on-closed-channel", "rewards sent although the transfer channel is closed"))
	}
	if x.Closed && due {
		w.stats.Count("due-but-channel-closed")
	}
	if got := w.w.CA.CApp.BankKeeper.GetSupply(post.Ctx, feeDenom).Amount; !got.Equal(preSupply) {
		vs = append(vs, vf("C16", "consumer-supply-changed", "consumer bank supply of %s changed %s -> %s", feeDenom, preSupply, got))
	}
	vs = append(vs, w.conservation(c, "consumer block")...)
	return c, vs
}

func (w *rwWorker) credit(ctx sdk.Context) math.LegacyDec {
	a, err := w.p.K.GetConsumerRewardsAllocationByDenom(ctx, "0", w.ibcD)
	if err != nil {
		return math.LegacyZeroDec()
	}
	return a.Rewards.AmountOf(w.ibcD)
}

func (w *rwWorker) deliver(x *rwNode) (engine.Node, []V) {
	if len(x.L["0"].XC2P.Packets) == 0 {
		return nil, nil
	}
	c := x.clone()
	p := w.p
	preCredit := w.credit(x.P.Ctx)
	prePool := p.K.GetConsumerRewardsPool(x.P.Ctx).AmountOf(w.ibcD)
	pk, res := w.w.DeliverXfer(c.XNode, "0")
	if pk == nil {
		return nil, nil
	}
	if res.Panic != "" {
		return nil, []V{vf("C19", "panic:xfer-recv", "%s", res.Panic)}
	}
	var d transfertypes.FungibleTokenPacketData
	_ = transfertypes.ModuleCdc.UnmarshalJSON(pk.P.Data, &d)
	amt, _ := math.NewIntFromString(d.Amount)
	var vs []V
	if !res.Success {
		return c, []V{vf("C16", "reward-transfer-rejected", "the provider answered a reward transfer with an error acknowledgement: %s", res.Ack)}
	}
	c.InFlight -= amt.Int64()
	if got := p.K.GetConsumerRewardsPool(c.P.Ctx).AmountOf(w.ibcD).Sub(prePool); !got.Equal(amt) {
		vs = append(vs, vf("C16", "pool-balance", "reward transfer of %s: the consumer rewards pool grew by %s", amt, got))
	}
	if got := w.credit(c.P.Ctx).Sub(preCredit); !got.Equal(math.LegacyNewDecFromInt(amt)) {
		vs = append(vs, vf("C16", "credit", "reward transfer of %s from consumer 0: its credit grew by %s", amt, got))
	}
	w.stats.Count("rewards-credited")
	vs = append(vs, w.conservation(c, "deliver")...)
	return c, vs
}

type distSnap struct {
	outstanding [4]math.LegacyDec
	commission  [4]math.LegacyDec
	pool        math.LegacyDec
	modBal      math.Int
}

func (w *rwWorker) dist(ctx sdk.Context) distSnap {
	p := w.p
	var s distSnap
	for i, v := range p.Vals[:4] {
		s.outstanding[i], s.commission[i] = math.LegacyZeroDec(), math.LegacyZeroDec()
		if o, err := p.PApp.DistrKeeper.GetValidatorOutstandingRewards(ctx, v.ValAddr()); err == nil {
			s.outstanding[i] = o.Rewards.AmountOf(w.ibcD)
		}
		if cm, err := p.PApp.DistrKeeper.GetValidatorAccumulatedCommission(ctx, v.ValAddr()); err == nil {
			s.commission[i] = cm.Commission.AmountOf(w.ibcD)
		}
	}
	s.pool = math.LegacyZeroDec()
	if fp, err := p.PApp.DistrKeeper.FeePool.Get(ctx); err == nil {
		s.pool = fp.CommunityPool.AmountOf(w.ibcD)
	}
	s.modBal = p.PApp.BankKeeper.GetBalance(ctx, authtypes.NewModuleAddress(distrtypes.ModuleName), w.ibcD).Amount
	return s
}

// pblock: provider block; BeginBlock pays out credits in registered / allow-listed denoms.
func (w *rwWorker) pblock(x *rwNode) (engine.Node, []V) {
	c := x.clone()
	p := w.p
	var vs []V
	var mid distSnap
	var midCredit math.LegacyDec
	var allowed bool
	var midCtx sdk.Context
	type ev struct {
		power    int64
		eligible bool
		rate     math.LegacyDec
		inSet    bool
	}
	var vals [4]ev
	r := w.w.PBlock(c.XNode, 0, func(s *env.State, r *env.BlockResult) {
		// state after EndBlock (the set the payout will use), before the BeginBlock that pays
		midCtx = s.Ctx
		mid = w.dist(s.Ctx)
		midCredit = w.credit(s.Ctx)
		ds, _ := p.K.GetAllowlistedRewardDenoms(s.Ctx, "0")
		allowed = has(ds, w.ibcD) || p.K.ConsumerRewardDenomExists(s.Ctx, w.ibcD)
		need := p.K.GetNumberOfEpochsToStartReceivingRewards(s.Ctx) * p.K.GetBlocksPerEpoch(s.Ctx)
		set, _ := p.K.GetConsumerValSet(s.Ctx, "0")
		w.observeJoins(c, s.Ctx, s.Height())
		for i, v := range p.Vals[:4] {
			vals[i].rate = math.LegacyNewDecWithPrec(1, 1) // validators' own commission rate in the fixture
			if cr, found := p.K.GetConsumerCommissionRate(s.Ctx, "0", v.PAddr()); found {
				vals[i].rate = cr
			}
			for _, cv := range set {
				if sdk.ConsAddress(cv.ProviderConsAddr).Equals(v.ConsAddr()) {
					vals[i].inSet, vals[i].power = true, cv.Power
					vals[i].eligible = (s.Height()+1)-c.Join[i] >= need
					if cv.JoinHeight != c.Join[i] {
						w.stats.Count("stored-join-height-differs-from-observed")
					}
				}
			}
		}
	})
	vs = append(vs, haltViolation("provider", r)...)
	if r.Halt() != "" {
		return nil, vs
	}
	_ = midCtx
	post := w.dist(c.P.Ctx)
	postCredit := w.credit(c.P.Ctx)
	// consumer 1 never allow-listed the denom: its credit is paid only once governance registers it
	if a, err := p.K.GetConsumerRewardsAllocationByDenom(c.P.Ctx, "1", w.ibcD); err == nil {
		pre1, _ := p.K.GetConsumerRewardsAllocationByDenom(x.P.Ctx, "1", w.ibcD)
		registered := p.K.ConsumerRewardDenomExists(x.P.Ctx, w.ibcD)
		if !registered && !a.Rewards.AmountOf(w.ibcD).Equal(pre1.Rewards.AmountOf(w.ibcD)) {
			vs = append(vs, vf("C16", "credit-paid-in-denom-not-allowed-for-that-consumer", "consumer 1 holds a credit in %s which neither it allow-listed nor governance registered; the credit went %s -> %s", w.ibcD, pre1.Rewards, a.Rewards))
		}
		if !registered {
			w.stats.Count("foreign-credit-kept")
		} else if !a.Rewards.AmountOf(w.ibcD).Equal(pre1.Rewards.AmountOf(w.ibcD)) {
			// governance registered the denom: consumer 1's credit is paid in this block too and mixes with
			// consumer 0's payout in the validators' books; this block's per-validator accounting is not judged
			w.stats.Count("two-consumers-paid-in-one-block(dont-care)")
			return c, append(vs, w.conservation(c, "provider block")...)
		}
	}
	paidVals := math.LegacyZeroDec()
	for i := range vals {
		paidVals = paidVals.Add(post.outstanding[i].Sub(mid.outstanding[i]))
	}
	paidPool := post.pool.Sub(mid.pool)
	if midCredit.IsZero() || !allowed {
		if !postCredit.Equal(midCredit) || !paidVals.IsZero() || !paidPool.IsZero() {
			vs = append(vs, vf("C16", "payout-without-allowed-credit", "credit %s (denom allowed=%v): credit after %s, validators received %s, community pool %s", midCredit, allowed, postCredit, paidVals, paidPool))
		}
		if !allowed && midCredit.IsPositive() {
			w.stats.Count("credit-in-disallowed-denom-kept")
		}
		vs = append(vs, w.conservation(c, "provider block")...)
		return c, vs
	}
	w.stats.Count("payout")
	var total int64
	defer func() {
		if total == 0 {
			w.stats.Count("payout-with-nobody-eligible")
		}
	}()
	nElig := 0
	for _, v := range vals {
		if v.eligible {
			total += v.power
			nElig++
		}
	}
	for i, v := range vals {
		if v.inSet && !v.eligible {
			w.stats.Count("in-set-but-not-yet-eligible")
		}
		got := post.outstanding[i].Sub(mid.outstanding[i])
		if !v.eligible && !got.IsZero() {
			vs = append(vs, vf("C16", "ineligible-validator-paid", "v%d (in set=%v, eligible=%v) received %s", i, v.inSet, v.eligible, got))
		}
	}
	if paidVals.Add(paidPool).GT(midCredit) {
		vs = append(vs, vf("C16", "paid-more-than-credited", "credit %s: validators received %s and the community pool %s", midCredit, paidVals, paidPool))
	}
	tax, _ := p.PApp.DistrKeeper.GetCommunityTax(c.P.Ctx)
	expectDust := math.LegacyZeroDec()
	if total > 0 {
		toVals := midCredit.MulTruncate(math.LegacyOneDec().Sub(tax))
		whole := math.LegacyNewDecFromInt(toVals.TruncateInt())
		sumShares := math.LegacyZeroDec()
		for i, v := range vals {
			if !v.eligible {
				continue
			}
			share := whole.MulTruncate(math.LegacyNewDec(v.power).QuoTruncate(math.LegacyNewDec(total)))
			sumShares = sumShares.Add(share)
			got := post.outstanding[i].Sub(mid.outstanding[i])
			if !got.Equal(share) {
				vs = append(vs, vf("C16", "validator-share", "v%d (power %d of %d eligible): received %s of %s distributed, expected %s (proportional, rounded down)", i, v.power, total, got, whole, share))
			}
			gotCom := post.commission[i].Sub(mid.commission[i])
			if want := share.Mul(v.rate); !gotCom.Equal(want) {
				vs = append(vs, vf("C16", "commission", "v%d: commission grew by %s, its rate on this consumer is %s of %s = %s", i, gotCom, v.rate, share, want))
			}
		}
		expectDust = whole.Sub(sumShares)
	}
	// credit accounting: validators + community pool + what stays credited == previous credit
	missing := midCredit.Sub(paidVals).Sub(paidPool).Sub(postCredit)
	switch {
	case missing.IsZero():
	case missing.IsPositive() && missing.Equal(expectDust) && missing.LT(math.LegacyOneDec()):
		w.stats.Count("dust")
		vs = append(vs, vf("C16", "allocation-dust-unowned", "credit %s paid out to %d eligible validators: %s paid to validators + %s to the community pool + %s still credited leaves %s (the truncation loss of the per-validator shares) owned by nobody: it sits in the distribution module account but is neither outstanding rewards, nor community pool, nor credit", midCredit, nElig, paidVals, paidPool, postCredit, missing))
	default:
		vs = append(vs, vf("C16", "credit-accounting", "credit %s: validators %s + community pool %s + remaining credit %s differ from it by %s (expected truncation loss %s)", midCredit, paidVals, paidPool, postCredit, missing, expectDust))
	}
	// the distribution module account holds exactly what its books say, up to the known dust
	dBal := math.LegacyNewDecFromInt(post.modBal.Sub(mid.modBal))
	dBooks := paidVals.Add(paidPool)
	if diff := dBal.Sub(dBooks); !diff.IsZero() && !(diff.Equal(expectDust) && diff.IsPositive()) {
		vs = append(vs, vf("C16", "distribution-account-vs-books", "the distribution module account grew by %s, outstanding rewards + community pool by %s", dBal, dBooks))
	}
	vs = append(vs, w.conservation(c, "provider block")...)
	return c, vs
}

var _ = strings.TrimSpace
var _ = time.Second

func (w *rwWorker) XWorldForTier2() *XWorld { return w.w }
