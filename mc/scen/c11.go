package scen

import (
	"encoding/json"
	"time"

	"verif/mc/engine"
)

func init() {
	registerScenario("stop", func(bz json.RawMessage) (engine.Scenario, error) {
		var c Stop
		if err := json.Unmarshal(bz, &c); err != nil {
			return nil, err
		}
		return c, nil
	})
	register("C11", func(tier string) CheckSpec {
		depth, budget := 5, 280*time.Second
		if tier == "thorough" {
			depth, budget = 7, 20*time.Minute
		}
		return CheckSpec{Level: "model_checking", Rule: searchRule, Assumptions: append([]string{
			"IBC is ibc-go's real core message server on both chains (handshakes, MsgRecvPacket, MsgAcknowledgement, MsgTimeout: client status, timeouts, sequences, commitments, acknowledgements, rollback are ibc-go's code); only Merkle proof verification is answered by a proof oracle that looks the claimed key up in the counterparty's actual store, and light-client updates are written as consensus states",
			"an error acknowledgement (forged, through the retired shim path) and a counterparty channel close (harness-level write) are injected: a provider never produces a packet an honest consumer rejects",
			"the slash ack of the fixture is seeded through the keeper (its real path is judged by C08)",
		}, commonAssumptions...), Budget: budget,
			Units:   []Unit{Search{Sc: Stop{Variant: "base"}, Depth: depth}, Search{Sc: Stop{Variant: "latechan"}, Depth: depth}},
			MustSee: []string{"stopped-by:remove", "stopped-by:timeout", "stopped-by:errorack", "stopped-by:P.block", "checked-while-stopped", "deleted", "channel-opened-after-stop"}}
	})
}
