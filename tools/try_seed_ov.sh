#!/bin/bash
# try_seed_ov.sh <patch.diff> <PROP> [more check args]
# Runs a check against /repo + a seeded change WITHOUT touching /repo: the patched files live in a
# scratch directory and are fed to go build through -overlay (VERIF_OVERLAY). Evidence of the trial
# goes to a scratch directory as well.
P=$(readlink -f "$1"); shift
T=$(mktemp -d /var/tmp/seed-ov.XXXXXX)
trap 'rm -rf "$T"' EXIT
files=$(grep '^+++ b/' "$P" | sed 's,^+++ b/,,')
echo '{"Replace":{' > "$T/overlay.json"; sep=""
for f in $files; do
  mkdir -p "$T/src/$(dirname $f)"
  [ -f "/repo/$f" ] && cp "/repo/$f" "$T/src/$f"
done
(cd "$T/src" && patch -s -p1 < "$P") || { echo "patch does not apply"; exit 2; }
for f in $files; do
  printf '%s"/repo/%s":"%s/src/%s"' "$sep" "$f" "$T" "$f" >> "$T/overlay.json"; sep=","
done
echo '}}' >> "$T/overlay.json"
cd /verif && VERIF_OVERLAY="$T/overlay.json" VERIF_SCRATCH_EVIDENCE="$T/ev" ./check "$@" 2>&1 | grep -E "^(VIOLATION|KNOWN|RESULT|BUILD|HARNESS|  key|  msg|  trace)" | cut -c1-400
