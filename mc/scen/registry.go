package scen

import (
	"encoding/json"
	"fmt"
	"os"
	"sort"
	"strings"
	"sync"
	"time"

	"verif/mc/engine"
	"verif/mc/env"
)

type RunCtx struct {
	Workers  int
	Deadline time.Time
	Seed     int
	Prop     string
}

type UnitResult struct {
	Name        string
	Params      map[string]any
	Kind        string // "explicit-state search" | "exhaustive grid"
	States      int64
	Transitions int64
	Executed    int64
	Maximal     int64
	Evaluations int64 // grid: cases evaluated; search: events executed in the last iteration
	Nontrivial  int64 // distinct non-trivial cases (search: distinct states)
	Validated   int64 // traces replayed through the full stack
	Depth       int
	DepthTarget int
	Exhaustive  bool
	Replayed    int
	Found       []engine.Found
	Samples     []any
	Outcomes    map[string]int64
	Wall        time.Duration
	Err         error `json:"-"`
	ErrStr      string
}

type Unit interface {
	Name() string
	Run(rc RunCtx) UnitResult
}

// Search is an explicit-state search unit.
type Search struct {
	Sc    engine.Scenario
	Depth int
}

func (u Search) Name() string { return u.Sc.Name() }

// Label is name + parameters (what `--only` matches against).
func (u Search) Label() string { return fmt.Sprintf("%s %v", u.Sc.Name(), u.Sc.Params()) }

func (u Search) Run(rc RunCtx) UnitResult {
	r, err := engine.Run(u.Sc, engine.Config{MaxDepth: u.Depth, Workers: rc.Workers, Deadline: rc.Deadline})
	if err != nil {
		return UnitResult{Name: u.Sc.Name(), Params: u.Sc.Params(), Kind: "explicit-state search", Err: err}
	}
	var samples []any
	for _, s := range r.Samples {
		samples = append(samples, s)
	}
	validated, t2err := tier2(u.Sc, r.Samples)
	if t2err != nil {
		r.Found = append(r.Found, engine.Found{Violation: engine.Violation{Property: "HARNESS", Key: "tier2-mismatch", Msg: t2err.Error()}, Scenario: u.Sc.Name(), Params: u.Sc.Params()})
	}
	defer func() {}()
	return UnitResult{Validated: validated, Name: r.Scenario, Params: r.Params, Kind: "explicit-state search", States: r.States, Transitions: r.Transitions,
		Executed: r.TotalExecuted, Maximal: r.MaximalTraces, Evaluations: r.Attempts, Nontrivial: r.States,
		Depth: r.DepthCompleted, DepthTarget: r.DepthTarget, Exhaustive: r.Exhaustive, Replayed: r.ReplayChecked,
		Found: r.Found, Samples: samples, Outcomes: r.Outcomes, Wall: r.Wall}
}

type CheckSpec struct {
	Level       string
	Rule        string
	Assumptions []string
	Budget      time.Duration
	Units       []Unit
	MustSee     []string // outcome-key prefixes that must be observed (vacuity guard)
}

var registry = map[string]func(tier string) CheckSpec{}

func register(prop string, f func(tier string) CheckSpec) { registry[prop] = f }

func Spec(prop, tier string) (CheckSpec, bool) {
	f, ok := registry[prop]
	if !ok {
		return CheckSpec{}, false
	}
	return f(tier), true
}

func Properties() []string {
	var ps []string
	for p := range registry {
		ps = append(ps, p)
	}
	sort.Strings(ps)
	return ps
}

// scenario factories by name, for replay
var factories = map[string]func(params json.RawMessage) (engine.Scenario, error){}

func registerScenario(name string, f func(params json.RawMessage) (engine.Scenario, error)) {
	factories[name] = f
}

// ReplayFound rebuilds the scenario of a recorded violation and replays its trace with no explorer.
func ReplayFound(f engine.Found) ([]engine.Violation, error) {
	mk, ok := factories[f.Scenario]
	if !ok {
		return nil, fmt.Errorf("unknown scenario %q", f.Scenario)
	}
	bz, _ := json.Marshal(f.Params)
	sc, err := mk(bz)
	if err != nil {
		return nil, err
	}
	w, err := sc.NewWorker(engine.NewStats())
	if err != nil {
		return nil, err
	}
	_, vs, err := engine.Replay(w, f.Trace)
	return vs, err
}

var commonAssumptions = []string{
	"CometBFT is replaced by the harness block driver (header height/time, accumulation of returned validator updates, no vote infos)",
	"messages go straight to the app's MsgServiceRouter (ValidateBasic + real msg server, atomic per message); ante handlers, signatures, fees and gas are not exercised",
	"bounded: validator count, event alphabet and depth as listed per unit; value alphabets are small",
}

const searchRule = "explicit-state search: every sequence of events from the unit's alphabet up to the depth bound is executed on copy-on-write branches of the real application; states are de-duplicated by SHA-256 over the full content of the observable module stores, header, consensus-engine validator set and monitor memory; distinct_nontrivial = distinct canonical states"

// Tier2Provider is implemented by the workers of provider-only scenarios: their traces can be
// replayed through the full ABCI stack (env.ReplayThroughABCI).
type Tier2Provider interface{ ProviderForTier2() *env.Provider }

// Tier2X is implemented by the workers of cross-chain scenarios: the provider's and every consumer
// chain's part of a trace is replayed through the full ABCI stack of its own fresh application.
type Tier2X interface{ XWorldForTier2() *XWorld }

var tier2Mu sync.Mutex

// tier2 replays the sample traces of a provider-only scenario on a fresh application through
// InitChain / FinalizeBlock (signed transactions, ante handlers) / Commit and compares stores and
// validator updates after every block. It returns the number of traces validated.
func tier2(sc engine.Scenario, traces [][]string) (int64, error) {
	tier2Mu.Lock()
	defer tier2Mu.Unlock()
	var n int64
	for _, tr := range traces {
		env.RecordNextProvider = true
		env.RecordNextConsumers = true
		w, err := sc.NewWorker(engine.NewStats())
		env.RecordNextProvider = false
		env.RecordNextConsumers = false
		if err != nil {
			return n, nil
		}
		if xp, ok := w.(Tier2X); ok {
			xw := xp.XWorldForTier2()
			if xw.P.Chain.Rec == nil || !xw.CA.Record {
				return 0, nil
			}
			// close the trace with one more block on every chain, so that transactions delivered in the
			// last (still open) blocks are executed and compared as well
			closed := append([]string{}, tr...)
			var pblk []string
			for _, ev := range w.Enabled(w.Root()) {
				if len(ev) > 6 && ev[0] == 'C' && strings.HasSuffix(ev, ".block") {
					closed = append(closed, ev)
				}
				if ev == "P.block" {
					pblk = append(pblk, ev)
				}
			}
			closed = append(closed, pblk...)
			if _, _, err := engine.Replay(w, closed); err != nil {
				continue
			}
			okAll := true
			if _, err := env.ReplayThroughABCI(xw.P, xw.P.Chain.Rec); err != nil {
				if !strings.HasPrefix(err.Error(), "not replayable") {
					return n, fmt.Errorf("trace %v (provider side): %w", tr, err)
				}
				okAll = false
			}
			for _, ch := range xw.CA.Booted {
				nb, err := env.ReplayConsumerThroughABCI(ch.ChainID, ch.Rec)
				if os.Getenv("MC_DEBUG") != "" {
					ntx, nref := 0, 0
					for _, op := range ch.Rec.Ops {
						if op.Msg != nil {
							ntx++
						}
						if op.Refresh != nil {
							nref++
						}
					}
					fmt.Fprintf(os.Stderr, "DEBUG tier2x consumer %s: %d blocks, %d txs, %d refreshes, %d claims, provider ops %d claims %d, err=%v\n", ch.ChainID, nb, ntx, nref, len(ch.Rec.Claims), len(xw.P.Chain.Rec.Ops), len(xw.P.Chain.Rec.Claims), err)
				}
				if err != nil {
					if !strings.HasPrefix(err.Error(), "not replayable") {
						return n, fmt.Errorf("trace %v (consumer chain %s): %w", tr, ch.ChainID, err)
					}
					okAll = false
				}
			}
			if okAll {
				n++
			}
			continue
		}
		tp, ok := w.(Tier2Provider)
		if !ok {
			return 0, nil
		}
		p := tp.ProviderForTier2()
		if p.Chain.Rec == nil {
			return 0, nil
		}
		if _, _, err := engine.Replay(w, tr); err != nil {
			continue
		}
		if _, err := env.ReplayThroughABCI(p, p.Chain.Rec); err != nil {
			if strings.HasPrefix(err.Error(), "not replayable") {
				continue
			}
			return n, fmt.Errorf("trace %v: %w", tr, err)
		}
		n++
	}
	return n, nil
}
