package scen

import (
	"encoding/json"
	"fmt"
	"os"
	"strings"
	"sync"
	"time"

	"verif/mc/engine"
	"verif/mc/env"
)

// SeamOcc is one dynamic occurrence of a map range during one transition.
type SeamOcc struct {
	Site string
	N    int
}

// SeamCtl is implemented by cmd/mc when built with `-tags seam` over the seamtool overlay: it owns
// the iteration order of every map range in x/ccv.
type SeamCtl interface {
	// Begin starts recording; occurrence number occ (0-based, -1 = none) uses permutation perm.
	Begin(occ int, perm []int)
	End() []SeamOcc
}

// Seam is nil in binaries built without the overlay.
var Seam SeamCtl

// detScenario wraps a scenario for C18: every transition is executed on two independent replicas,
// and once more for every alternative iteration order of every map-range occurrence in it.
type detScenario struct{ inner engine.Scenario }

func (d detScenario) Name() string { return d.inner.Name() }
func (d detScenario) Params() map[string]any {
	p := map[string]any{}
	for k, v := range d.inner.Params() {
		p[k] = v
	}
	p["replicas"] = 2
	return p
}

type detNode struct{ A, B engine.Node }

type detWorker struct {
	a, b   engine.Worker
	oa, ob *env.ObsBuf // what replica a / b handed back to its environment during the current transition
	stats  *engine.Stats
}

var detCreate sync.Mutex // replicas are created one at a time so that each one's app objects can be told apart

func (d detScenario) NewWorker(stats *engine.Stats) (engine.Worker, error) {
	detCreate.Lock()
	defer detCreate.Unlock()
	w := &detWorker{stats: stats, oa: env.NewObsBuf(), ob: env.NewObsBuf()}
	mark := env.AppsCreated()
	a, err := d.inner.NewWorker(engine.NewStats())
	if err != nil {
		return nil, err
	}
	for _, app := range env.AppsSince(mark) {
		env.Observe(app, w.oa)
	}
	mark = env.AppsCreated()
	b, err := d.inner.NewWorker(engine.NewStats())
	if err != nil {
		return nil, err
	}
	for _, app := range env.AppsSince(mark) {
		env.Observe(app, w.ob)
	}
	w.a, w.b = a, b
	return w, nil
}

func (w *detWorker) Root() engine.Node              { return &detNode{A: w.a.Root(), B: w.b.Root()} }
func (w *detWorker) Enabled(n engine.Node) []string { return w.a.Enabled(n.(*detNode).A) }
func (w *detWorker) Hash(n engine.Node) [32]byte    { return w.a.Hash(n.(*detNode).A) }
func (w *detWorker) RootViolations() []V {
	if w.a.Hash(w.a.Root()) != w.b.Hash(w.b.Root()) {
		return []V{vf("C18", "replica-divergence:fixture", "two replicas built from the same genesis and prefix have different state hashes")}
	}
	return nil
}

func perms(n int) [][]int {
	if n > 4 {
		// rotations and the reversal (reported as non-exhaustive for that occurrence)
		var out [][]int
		for r := 1; r < n; r++ {
			p := make([]int, n)
			for i := range p {
				p[i] = (i + r) % n
			}
			out = append(out, p)
		}
		rev := make([]int, n)
		for i := range rev {
			rev[i] = n - 1 - i
		}
		return append(out, rev)
	}
	var out [][]int
	var rec func(cur []int, used int)
	rec = func(cur []int, used int) {
		if len(cur) == n {
			id := true
			for i, v := range cur {
				if i != v {
					id = false
				}
			}
			if !id {
				out = append(out, append([]int{}, cur...))
			}
			return
		}
		for i := 0; i < n; i++ {
			if used&(1<<i) == 0 {
				rec(append(cur, i), used|1<<i)
			}
		}
	}
	rec(nil, 0)
	return out
}

func (w *detWorker) Apply(n engine.Node, ev string) (engine.Node, []V) {
	x := n.(*detNode)
	var occ []SeamOcc
	if Seam != nil {
		Seam.Begin(-1, nil)
	}
	w.oa.Reset()
	ca, _ := w.a.Apply(x.A, ev)
	obsA, nA := w.oa.Sum(), w.oa.N
	if Seam != nil {
		occ = Seam.End()
		Seam.Begin(-1, nil)
	}
	w.ob.Reset()
	cb, _ := w.b.Apply(x.B, ev)
	obsB := w.ob.Sum()
	if Seam != nil {
		Seam.End()
	}
	var vs []V
	same := func(c1 engine.Node, w1 engine.Worker, c2 engine.Node, w2 engine.Worker) bool {
		if (c1 == nil) != (c2 == nil) {
			return false
		}
		return c1 == nil || w1.Hash(c1) == w2.Hash(c2)
	}
	w.stats.Count("transition-on-two-replicas")
	if nA > 0 {
		w.stats.Count("transition-with-events-compared")
	}
	if !same(ca, w.a, cb, w.b) {
		vs = append(vs, vf("C18", "replica-divergence", "event %s gives different results on two replicas started from identical states", ev))
	} else if obsA != obsB {
		vs = append(vs, vf("C18", "replica-divergence:events", "event %s leaves identical states on two replicas but the emitted events / validator updates / accept-reject outcomes differ", ev))
	}
	for i, o := range occ {
		if o.N < 2 {
			continue
		}
		w.stats.Count("map-range-occurrence:" + o.Site)
		if o.N > 4 {
			w.stats.Count("occurrence-with-more-than-4-keys(non-exhaustive)")
		}
		for _, p := range perms(o.N) {
			Seam.Begin(i, p)
			w.ob.Reset()
			cd, _ := w.b.Apply(x.B, ev)
			obsD := w.ob.Sum()
			Seam.End()
			w.stats.Count("alternative-order-executed")
			if !same(ca, w.a, cd, w.b) {
				vs = append(vs, vf("C18", "map-order-dependence:"+o.Site, "event %s: iterating the map at %s (%d keys) in order %v instead of the canonical order changes the result", ev, o.Site, o.N, p))
				break
			}
			if obsD != obsA {
				vs = append(vs, vf("C18", "map-order-dependence:events:"+o.Site, "event %s: iterating the map at %s (%d keys) in order %v instead of the canonical order leaves the same state but changes the emitted events / validator updates", ev, o.Site, o.N, p))
				break
			}
		}
	}
	if ca == nil || cb == nil {
		return nil, vs
	}
	return &detNode{A: ca, B: cb}, vs
}

// seamReport reads the seamtool report (static part of C18).
func seamReport() (sites []map[string]any, findings []map[string]any, ok bool) {
	path := os.Getenv("VERIF_SEAM_REPORT")
	if path == "" {
		return nil, nil, false
	}
	bz, err := os.ReadFile(path)
	if err != nil {
		return nil, nil, false
	}
	var r struct {
		Sites []map[string]any `json:"map_range_sites"`
		Other []map[string]any `json:"other_nondeterminism_sources"`
	}
	if json.Unmarshal(bz, &r) != nil {
		return nil, nil, false
	}
	return r.Sites, r.Other, true
}

// StaticScan is the unit that turns seamtool findings outside the allow-list into violations.
type StaticScan struct{}

func (StaticScan) Name() string { return "nondeterminism-scan" }
func (StaticScan) Run(rc RunCtx) UnitResult {
	start := time.Now()
	res := UnitResult{Name: "nondeterminism-scan", Kind: "static scan of x/ccv (go/packages + go/types)", Depth: 1, DepthTarget: 1}
	sites, other, ok := seamReport()
	if !ok || Seam == nil {
		res.Err = fmt.Errorf("the C18 check must run in a binary built over the seamtool overlay (./check C18 does that)")
		return res
	}
	res.Exhaustive = true
	res.Evaluations = int64(len(sites) + len(other))
	res.Nontrivial = int64(len(sites))
	res.Outcomes = map[string]int64{}
	for _, s := range sites {
		res.Samples = append(res.Samples, s)
		res.Outcomes["map-range-site"]++
		if id, ok := s["id"].(string); ok {
			res.Outcomes["map-range-site-id:"+id] = 1
		}
	}
	for _, f := range other {
		kind, _ := f["kind"].(string)
		file, _ := f["file"].(string)
		line, _ := f["line"].(float64)
		allowed := false
		if src, err := os.ReadFile("/repo/" + file); err == nil {
			ls := strings.Split(string(src), "\n")
			if int(line) >= 1 && int(line) <= len(ls) && strings.Contains(ls[int(line)-1], "telemetry.") {
				allowed = true // telemetry timers do not feed the state machine
			}
		}
		if strings.Contains(file, "/simulation/") {
			allowed = true
		}
		res.Outcomes[fmt.Sprintf("%s(allowed=%v)", kind, allowed)]++
		if !allowed {
			res.Found = append(res.Found, engine.Found{Violation: vf("C18", "nondeterminism-source:"+kind+":"+file, "%s at %s:%d (%v) is in the consensus path of x/ccv and not on the allow-list (telemetry timers, simulation)", kind, file, int(line), f["what"]),
				Scenario: "nondeterminism-scan", Trace: []string{fmt.Sprintf("%s:%d", file, int(line))}})
		}
	}
	res.Wall = time.Since(start)
	return res
}
