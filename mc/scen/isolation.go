package scen

import (
	"bytes"
	"encoding/binary"
	"fmt"
	"sort"
	"strconv"
	"time"

	"cosmossdk.io/math"

	sdk "github.com/cosmos/cosmos-sdk/types"
	minttypes "github.com/cosmos/cosmos-sdk/x/mint/types"

	"verif/mc/engine"
	"verif/mc/env"

	providertypes "github.com/cosmos/interchain-security/v7/x/ccv/provider/types"
)

// Isolation is the C13 scenario. It runs two worlds side by side: the real one, and a shadow in
// which every operation aimed at consumer X is skipped. Whatever belongs to any other consumer must
// be byte-identical in both worlds after every event (differential oracle, no expected values).
type Isolation struct {
	X string // the consumer operations are aimed at: "1", "10" (launched, rich) or "0" (registered)
}

func (c Isolation) Name() string           { return "isolation" }
func (c Isolation) Params() map[string]any { return map[string]any{"X": c.X} }

type isoNode struct {
	S, Sh env.State
}

type isoWorker struct {
	cfg    Isolation
	p      *env.Provider
	tab    Table
	root   *isoNode
	stats  *engine.Stats
	rootVs []V
	ids    []string
	keys   map[string]env.ConsKey
}

func lenPrefixed(id string) []byte {
	b := make([]byte, 8)
	binary.BigEndian.PutUint64(b, uint64(len(id)))
	return append(b, []byte(id)...)
}

// owners returns the consumers a provider-store entry belongs to: key is `p|id`, or starts with
// `p|len8(id)|id`, or (value-keyed indexes) the value is the id, or (time queues) the value lists it.
func (w *isoWorker) owners(kv env.KV) map[string]bool {
	out := map[string]bool{}
	if len(kv.K) < 2 {
		return out
	}
	rest := kv.K[1:]
	for _, id := range w.ids {
		if string(rest) == id || bytes.HasPrefix(rest, lenPrefixed(id)) || string(kv.V) == id {
			out[id] = true
		}
	}
	p := kv.K[0]
	if p == providertypes.SpawnTimeToConsumerIdsKeyPrefix() || p == providertypes.RemovalTimeToConsumerIdsKeyPrefix() || p == providertypes.InfractionScheduledTimeToConsumerIdsKeyPrefix() {
		var ids providertypes.ConsumerIds
		if ids.Unmarshal(kv.V) == nil {
			for _, id := range ids.Ids {
				out[id] = true
			}
		}
	}
	return out
}

// compare: everything not owned by X must be identical in the real and the shadow world.
func (w *isoWorker) compare(n *isoNode, ev string) []V {
	a := env.Dump(n.S.Ctx, w.p.PApp, "provider")
	b := env.Dump(n.Sh.Ctx, w.p.PApp, "provider")
	am := map[string][]byte{}
	for _, kv := range a {
		am[string(kv.K)] = kv.V
	}
	bm := map[string][]byte{}
	for _, kv := range b {
		bm[string(kv.K)] = kv.V
	}
	var vs []V
	seen := map[string]bool{}
	judge := func(k string) {
		if seen[k] {
			return
		}
		seen[k] = true
		va, ina := am[k]
		vb, inb := bm[k]
		if ina == inb && bytes.Equal(va, vb) {
			return
		}
		own := map[string]bool{}
		if ina {
			for id := range w.owners(env.KV{K: []byte(k), V: va}) {
				own[id] = true
			}
		}
		if inb {
			for id := range w.owners(env.KV{K: []byte(k), V: vb}) {
				own[id] = true
			}
		}
		// time queues: both sides may list several consumers; only X's membership may differ
		p := k[0]
		if p == providertypes.SpawnTimeToConsumerIdsKeyPrefix() || p == providertypes.RemovalTimeToConsumerIdsKeyPrefix() || p == providertypes.InfractionScheduledTimeToConsumerIdsKeyPrefix() {
			la, lb := idList(va), idList(vb)
			if fmt.Sprint(without(la, w.cfg.X)) != fmt.Sprint(without(lb, w.cfg.X)) {
				vs = append(vs, vf("C13", fmt.Sprintf("time-queue-differs:%d", p), "after %s: time-queue entry %x lists %v in the real world and %v without the operations on consumer %s", ev, k, la, lb, w.cfg.X))
			}
			return
		}
		delete(own, w.cfg.X)
		if len(own) > 0 {
			w.stats.Count("foreign-diff")
			vs = append(vs, vf("C13", fmt.Sprintf("foreign-state-changed:prefix=%d", p), "after %s: provider store entry %x (prefix %d) belonging to consumer %v differs between the real world and the world without the operations on consumer %s (present %v/%v)", ev, k, p, sortedKeys(own), w.cfg.X, ina, inb))
		} else if len(w.owners(env.KV{K: []byte(k), V: va})) == 0 && len(w.owners(env.KV{K: []byte(k), V: vb})) == 0 {
			// provider-wide state: operations on one consumer may legitimately touch none of it here
			w.stats.Count(fmt.Sprintf("global-diff:prefix=%d", p))
			if !w.globalOK(p) {
				vs = append(vs, vf("C13", fmt.Sprintf("global-state-changed:prefix=%d", p), "after %s: provider-wide entry %x (prefix %d) differs between the two worlds", ev, k, p))
			}
		} else {
			w.stats.Count("x-diff")
		}
	}
	for k := range am {
		judge(k)
	}
	for k := range bm {
		judge(k)
	}
	return vs
}

// globalOK: provider-wide families that operations on one consumer legitimately touch.
func (w *isoWorker) globalOK(p byte) bool {
	return false
}

func idList(v []byte) []string {
	var ids providertypes.ConsumerIds
	if v == nil || ids.Unmarshal(v) != nil {
		return nil
	}
	return ids.Ids
}

func without(l []string, x string) []string {
	var o []string
	for _, s := range l {
		if s != x {
			o = append(o, s)
		}
	}
	sort.Strings(o)
	return o
}

func (c Isolation) NewWorker(stats *engine.Stats) (engine.Worker, error) {
	p, err := env.NewProvider(env.ProviderCfg{SelfTokens: []int64{3 * unit, 2 * unit, 1 * unit}, Users: 2})
	if err != nil {
		return nil, err
	}
	w := &isoWorker{cfg: c, p: p, stats: stats, keys: map[string]env.ConsKey{}}
	for i := 0; i <= 11; i++ { // 0..10 from the fixture, 11 can be created later
		w.ids = append(w.ids, strconv.Itoa(i))
	}
	for _, kn := range []string{"a1", "b1", "a10", "b10", "a0", "a2", "n1", "n2"} {
		w.keys[kn] = env.NewConsKey("iso-" + kn)
	}
	st := p.Root.Branch()
	A := p.Users[0].Addr.String()
	must := func(m sdk.Msg) error {
		if r := st.Deliver(m); r.Err != nil {
			return fmt.Errorf("%T: %w", m, r.Err)
		}
		return nil
	}
	rich := map[string]bool{"1": true, "10": true, "0": true, "2": true}
	for _, id := range w.ids[:11] {
		spawn := time.Time{}
		if id == "1" || id == "10" || id == "2" {
			spawn = st.Time()
		}
		ps := &providertypes.PowerShapingParameters{}
		if rich[id] {
			ps = &providertypes.PowerShapingParameters{Allowlist: consAddrs(p, 0, 1, 2), Prioritylist: consAddrs(p, 1), Denylist: []string{env.NewConsKey("nobody").ConsAddr().String()}}
		}
		m := env.MsgCreateConsumer(A, "iso", env.ConsumerInit{Spawn: spawn}.Params("iso"), ps)
		if rich[id] {
			m.AllowlistedRewardDenoms = &providertypes.AllowlistedRewardDenoms{Denoms: []string{ibcDenom(id)}}
		}
		if err := must(m); err != nil {
			return nil, err
		}
		if rich[id] {
			for _, vi := range []int{0, 1} {
				if err := must(env.MsgOptIn(p.Vals[vi], id, nil)); err != nil {
					return nil, err
				}
			}
			if err := must(env.MsgAssignKey(p.Vals[0], id, w.keys["a"+id])); err != nil {
				return nil, err
			}
			if err := must(env.MsgSetCommission(p.Vals[0], id, "0.3")); err != nil {
				return nil, err
			}
		}
	}
	w.root = &isoNode{S: st, Sh: st}
	blk := func() error {
		r := st.NextBlock(5*time.Second, nil)
		if h := r.Halt(); h != "" {
			return fmt.Errorf("prefix block: %s", h)
		}
		return nil
	}
	if err := blk(); err != nil {
		return nil, err
	}
	// after launch: replace keys (prune entries), pending infraction change, opt-out -> queued VSC packets
	for _, id := range []string{"10", "1"} {
		if err := must(env.MsgAssignKey(p.Vals[0], id, w.keys["b"+id])); err != nil {
			return nil, err
		}
		x := ipP1
		if err := must(&providertypes.MsgUpdateConsumer{Owner: A, ConsumerId: id, InfractionParameters: &x}); err != nil {
			return nil, err
		}
		if err := must(env.MsgOptOut(p.Vals[1], id)); err != nil {
			return nil, err
		}
		// state that needs the cross-chain paths (judged there) is seeded through the keeper
		p.K.AppendSlashAck(st.Ctx, id, "slashack-"+id)
	}
	if err := blk(); err != nil {
		return nil, err
	}
	for _, id := range []string{"10", "1"} {
		if len(p.K.GetPendingVSCPackets(st.Ctx, id)) == 0 {
			return nil, fmt.Errorf("fixture: consumer %s has no queued VSC packet", id)
		}
	}
	// reward credits (seeded after the last prefix block so that they are still unpaid in the root state),
	// backed by coins in the consumer rewards pool so that payouts really happen
	for _, id := range []string{"10", "1"} {
		p.K.SetConsumerRewardsAllocationByDenom(st.Ctx, id, ibcDenom(id), providertypes.ConsumerRewardsAllocation{
			Rewards: sdk.NewDecCoins(sdk.NewDecCoinFromDec(ibcDenom(id), math.LegacyNewDec(100)))})
		// ... and a credit in the denom only the *other* consumer allow-lists (it must stay untouched)
		other := map[string]string{"1": "10", "10": "1"}[id]
		p.K.SetConsumerRewardsAllocationByDenom(st.Ctx, id, ibcDenom(other), providertypes.ConsumerRewardsAllocation{
			Rewards: sdk.NewDecCoins(sdk.NewDecCoinFromDec(ibcDenom(other), math.LegacyNewDec(77)))})
	}
	// the credits are backed by coins in the consumer rewards pool, so that payouts really happen
	for _, id := range []string{"10", "1"} {
		coins := sdk.NewCoins(sdk.NewInt64Coin(ibcDenom(id), 177))
		if err := p.PApp.BankKeeper.MintCoins(st.Ctx, minttypes.ModuleName, coins); err != nil {
			return nil, err
		}
		if err := p.PApp.BankKeeper.SendCoinsFromModuleToModule(st.Ctx, minttypes.ModuleName, providertypes.ConsumerRewardsPool, coins); err != nil {
			return nil, err
		}
	}
	w.root = &isoNode{S: st, Sh: st}
	w.rootVs = w.compare(w.root, "fixture")
	w.build()
	return w, nil
}

func (w *isoWorker) RootViolations() []V            { return w.rootVs }
func (w *isoWorker) Root() engine.Node              { return w.root }
func (w *isoWorker) Enabled(n engine.Node) []string { return w.tab.Names() }
func (w *isoWorker) Apply(n engine.Node, ev string) (engine.Node, []V) {
	return w.tab.Apply(n, ev)
}
func (w *isoWorker) Hash(n engine.Node) [32]byte {
	x := n.(*isoNode)
	a := x.S.HashStores("provider", "staking")
	b := x.Sh.HashStores("provider")
	return mix(a, string(b[:]))
}

// xop: an operation aimed at X — applied to the real world only.
func (w *isoWorker) xop(name string, mk func(s *env.State) sdk.Msg) {
	w.tab.Add(name, func(n engine.Node) (engine.Node, []V) {
		x := n.(*isoNode)
		msg := mk(&x.S)
		if msg == nil {
			return nil, nil
		}
		c := &isoNode{S: x.S.Branch(), Sh: x.Sh}
		if r := c.S.Deliver(msg); r.Err != nil {
			debugOnce("isolation:"+name, r.Err)
			return nil, nil
		}
		w.stats.Count("xop-accepted")
		return c, w.compare(c, name)
	})
}

// common: applied to both worlds.
func (w *isoWorker) common(name string, mk func(s *env.State) sdk.Msg) {
	w.tab.Add(name, func(n engine.Node) (engine.Node, []V) {
		x := n.(*isoNode)
		c := &isoNode{S: x.S.Branch(), Sh: x.Sh.Branch()}
		m1, m2 := mk(&c.S), mk(&c.Sh)
		if m1 == nil || m2 == nil {
			return nil, nil
		}
		r1, r2 := c.S.Deliver(m1), c.Sh.Deliver(m2)
		if r1.Err != nil && r2.Err != nil {
			return nil, nil
		}
		var vs []V
		if (r1.Err == nil) != (r2.Err == nil) {
			vs = append(vs, vf("C13", "foreign-op-outcome-differs", "%s (not aimed at consumer %s) is accepted=%v in the real world and accepted=%v without the operations on %s: %v / %v", name, w.cfg.X, r1.Err == nil, r2.Err == nil, w.cfg.X, r1.Err, r2.Err))
		}
		return c, append(vs, w.compare(c, name)...)
	})
}

func (w *isoWorker) block(dt time.Duration) EvFn {
	return func(n engine.Node) (engine.Node, []V) {
		x := n.(*isoNode)
		c := &isoNode{S: x.S.Branch(), Sh: x.Sh.Branch()}
		r1 := c.S.NextBlock(dt, nil)
		r2 := c.Sh.NextBlock(dt, nil)
		vs := haltViolation("provider", r1)
		if r1.Halt() != "" || r2.Halt() != "" {
			return nil, vs
		}
		return c, append(vs, w.compare(c, fmt.Sprintf("block(%s)", dt))...)
	}
}

func (w *isoWorker) build() {
	p := w.p
	X := w.cfg.X
	A, B := p.Users[0].Addr.String(), p.Users[1].Addr.String()
	owner := func(s *env.State, id string) string { o, _ := p.K.GetConsumerOwnerAddress(s.Ctx, id); return o }
	w.tab.Add("block(5s)", w.block(5*time.Second))
	w.tab.Add("block(U)", w.block(p.Cfg.Unbonding))
	w.xop("optin(v2,X)", func(*env.State) sdk.Msg { return env.MsgOptIn(p.Vals[2], X, nil) })
	w.xop("optin(v1,X,key n2)", func(*env.State) sdk.Msg { k := w.keys["n2"]; return env.MsgOptIn(p.Vals[1], X, &k) })
	w.xop("optout(v0,X)", func(*env.State) sdk.Msg { return env.MsgOptOut(p.Vals[0], X) })
	w.xop("assign(v0,X,n1)", func(*env.State) sdk.Msg { return env.MsgAssignKey(p.Vals[0], X, w.keys["n1"]) })
	w.xop("commission(v1,X)", func(*env.State) sdk.Msg { return env.MsgSetCommission(p.Vals[1], X, "0.7") })
	w.xop("update(X,powershaping)", func(s *env.State) sdk.Msg {
		ps := providertypes.PowerShapingParameters{Denylist: consAddrs(p, 1), Prioritylist: consAddrs(p, 0, 2), ValidatorSetCap: 1, ValidatorsPowerCap: 50}
		return &providertypes.MsgUpdateConsumer{Owner: owner(s, X), ConsumerId: X, PowerShapingParameters: &ps}
	})
	w.xop("update(X,infraction P2)", func(s *env.State) sdk.Msg {
		x := ipP2
		return &providertypes.MsgUpdateConsumer{Owner: owner(s, X), ConsumerId: X, InfractionParameters: &x}
	})
	w.xop("update(X,denoms+owner=B)", func(s *env.State) sdk.Msg {
		if owner(s, X) == B {
			return nil
		}
		return &providertypes.MsgUpdateConsumer{Owner: owner(s, X), ConsumerId: X, NewOwnerAddress: B,
			Metadata:                &providertypes.ConsumerMetadata{Name: "renamed", Description: "d", Metadata: "m"},
			AllowlistedRewardDenoms: &providertypes.AllowlistedRewardDenoms{Denoms: []string{ibcDenom("xnew")}}}
	})
	w.xop("remove(X)", func(s *env.State) sdk.Msg { return env.MsgRemoveConsumer(owner(s, X), X) })
	if X == "0" {
		w.xop("update(X,spawn=now)", func(s *env.State) sdk.Msg {
			return &providertypes.MsgUpdateConsumer{Owner: owner(s, X), ConsumerId: X, InitializationParameters: env.ConsumerInit{Spawn: s.Time()}.Params("iso")}
		})
		w.xop("update(X,chainid)", func(s *env.State) sdk.Msg {
			return &providertypes.MsgUpdateConsumer{Owner: owner(s, X), ConsumerId: X, NewChainId: "isox"}
		})
	}
	// operations on other consumers, in both worlds
	other := "10"
	if X == "10" {
		other = "1"
	}
	w.common("optout(v0,other)", func(*env.State) sdk.Msg { return env.MsgOptOut(p.Vals[0], other) })
	w.common("remove(other)", func(s *env.State) sdk.Msg { return env.MsgRemoveConsumer(A, other) })
	w.common("assign(v1,other,n2)", func(*env.State) sdk.Msg { return env.MsgAssignKey(p.Vals[1], other, w.keys["n2"]) })
	w.common("create(spawn=now)", func(s *env.State) sdk.Msg {
		if n, _ := p.K.GetConsumerId(s.Ctx); n >= 12 {
			return nil
		}
		return env.MsgCreateConsumer(A, "iso", env.ConsumerInit{Spawn: s.Time()}.Params("iso"), nil)
	})
}

func ibcDenom(seed string) string {
	h := mix([32]byte{}, seed)
	return fmt.Sprintf("ibc/%X", h[:])
}
