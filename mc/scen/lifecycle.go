package scen

import (
	"fmt"
	"sort"
	"strconv"
	"time"

	sdk "github.com/cosmos/cosmos-sdk/types"
	stakingtypes "github.com/cosmos/cosmos-sdk/x/staking/types"

	"verif/mc/engine"
	"verif/mc/env"

	providertypes "github.com/cosmos/interchain-security/v7/x/ccv/provider/types"
)

// Lifecycle is the C10 scenario (provider only).
type Lifecycle struct {
	Variant string // "base" | "bulk:<layout>"
}

func (c Lifecycle) Name() string           { return "lifecycle" }
func (c Lifecycle) Params() map[string]any { return map[string]any{"Variant": c.Variant} }

type lcNode struct {
	S env.State
}

type lcWorker struct {
	cfg    Lifecycle
	p      *env.Provider
	tab    Table
	root   *lcNode
	stats  *engine.Stats
	rootVs []V
	t0     time.Time
	maxC   int
}

type lcCons struct {
	id       string
	phase    providertypes.ConsumerPhase
	spawn    time.Time
	chainID  string
	removal  time.Time
	hasRemov bool
}

type lcSummary struct {
	nextID uint64
	cons   map[string]lcCons
	queue  map[string][]time.Time // id -> spawn-queue times it appears under
	rqueue map[string][]time.Time // id -> removal-queue times
}

func (w *lcWorker) summary(ctx sdk.Context) lcSummary {
	k := w.p.K
	s := lcSummary{cons: map[string]lcCons{}, queue: map[string][]time.Time{}, rqueue: map[string][]time.Time{}}
	s.nextID, _ = k.GetConsumerId(ctx)
	for i := uint64(0); i < s.nextID; i++ {
		id := strconv.FormatUint(i, 10)
		c := lcCons{id: id, phase: k.GetConsumerPhase(ctx, id)}
		if ip, err := k.GetConsumerInitializationParameters(ctx, id); err == nil {
			c.spawn = ip.SpawnTime
		}
		c.chainID, _ = k.GetConsumerChainId(ctx, id)
		if rt, err := k.GetConsumerRemovalTime(ctx, id); err == nil {
			c.removal, c.hasRemov = rt, true
		}
		s.cons[id] = c
	}
	for _, kv := range env.DumpPrefix(ctx, w.p.PApp, "provider", []byte{providertypes.SpawnTimeToConsumerIdsKeyPrefix()}) {
		ts, err := providertypes.ParseTime(providertypes.SpawnTimeToConsumerIdsKeyPrefix(), kv.K)
		if err != nil {
			continue
		}
		var ids providertypes.ConsumerIds
		if err := ids.Unmarshal(kv.V); err != nil {
			continue
		}
		for _, id := range ids.Ids {
			s.queue[id] = append(s.queue[id], ts)
		}
	}
	for _, kv := range env.DumpPrefix(ctx, w.p.PApp, "provider", []byte{providertypes.RemovalTimeToConsumerIdsKeyPrefix()}) {
		ts, err := providertypes.ParseTime(providertypes.RemovalTimeToConsumerIdsKeyPrefix(), kv.K)
		if err != nil {
			continue
		}
		var ids providertypes.ConsumerIds
		if err := ids.Unmarshal(kv.V); err != nil {
			continue
		}
		for _, id := range ids.Ids {
			s.rqueue[id] = append(s.rqueue[id], ts)
		}
	}
	return s
}

var legalEdges = map[[2]providertypes.ConsumerPhase]bool{
	{providertypes.CONSUMER_PHASE_REGISTERED, providertypes.CONSUMER_PHASE_INITIALIZED}: true,
	{providertypes.CONSUMER_PHASE_INITIALIZED, providertypes.CONSUMER_PHASE_REGISTERED}: true,
	{providertypes.CONSUMER_PHASE_INITIALIZED, providertypes.CONSUMER_PHASE_LAUNCHED}:   true,
	{providertypes.CONSUMER_PHASE_LAUNCHED, providertypes.CONSUMER_PHASE_STOPPED}:       true,
	{providertypes.CONSUMER_PHASE_STOPPED, providertypes.CONSUMER_PHASE_DELETED}:        true,
}

// structural invariants of one state + legality of the step from pre.
func (w *lcWorker) judge(pre, post lcSummary, ev string) []V {
	var vs []V
	if post.nextID < pre.nextID {
		vs = append(vs, vf("C10", "id-counter-decreased", "%s: next consumer id went %d -> %d", ev, pre.nextID, post.nextID))
	}
	for id, c := range post.cons {
		old, existed := pre.cons[id]
		if existed && old.phase != c.phase && !legalEdges[[2]providertypes.ConsumerPhase{old.phase, c.phase}] {
			vs = append(vs, vf("C10", fmt.Sprintf("illegal-edge:%s->%s", old.phase, c.phase), "%s: consumer %s moved %s -> %s", ev, id, old.phase, c.phase))
		}
		if !existed && c.phase != providertypes.CONSUMER_PHASE_REGISTERED && c.phase != providertypes.CONSUMER_PHASE_INITIALIZED {
			vs = append(vs, vf("C10", "bad-initial-phase", "%s: new consumer %s starts in phase %s", ev, id, c.phase))
		}
		if existed && old.phase != c.phase {
			w.stats.Count(fmt.Sprintf("edge:%s->%s", old.phase, c.phase))
		}
		pre := c.phase == providertypes.CONSUMER_PHASE_REGISTERED || c.phase == providertypes.CONSUMER_PHASE_INITIALIZED
		q := post.queue[id]
		if pre {
			if (c.phase == providertypes.CONSUMER_PHASE_INITIALIZED) != !c.spawn.IsZero() {
				vs = append(vs, vf("C10", "initialized-iff-spawn", "%s: consumer %s is %s with spawn time %s", ev, id, c.phase, c.spawn))
			}
			if c.phase == providertypes.CONSUMER_PHASE_INITIALIZED {
				if len(q) != 1 || !q[0].Equal(c.spawn) {
					vs = append(vs, vf("C10", "not-scheduled-exactly-once", "%s: initialized consumer %s (spawn %s) is scheduled under %v", ev, id, c.spawn.UTC().Format(time.RFC3339), fmtTimes(q)))
				}
			} else if len(q) != 0 {
				vs = append(vs, vf("C10", "registered-but-scheduled", "%s: registered consumer %s still scheduled under %v", ev, id, fmtTimes(q)))
			}
		} else if len(q) != 0 {
			vs = append(vs, vf("C10", "launched-but-scheduled", "%s: consumer %s in phase %s is in the spawn queue under %v", ev, id, c.phase, fmtTimes(q)))
		}
	}
	for id := range post.queue {
		if _, ok := post.cons[id]; !ok {
			vs = append(vs, vf("C10", "unknown-id-scheduled", "%s: spawn queue holds unknown consumer id %s", ev, id))
		}
	}
	return vs
}

func fmtTimes(ts []time.Time) []string {
	var o []string
	for _, t := range ts {
		o = append(o, t.UTC().Format("15:04:05"))
	}
	return o
}

func (c Lifecycle) NewWorker(stats *engine.Stats) (engine.Worker, error) {
	// powers 3,2,1 and M=2: v2 is bonded but not in the provider's consensus set
	p, err := env.NewProvider(env.ProviderCfg{SelfTokens: []int64{3 * unit, 2 * unit, 1 * unit}, Users: 2, MaxProvCons: 2})
	if err != nil {
		return nil, err
	}
	w := &lcWorker{cfg: c, p: p, stats: stats, t0: p.Root.Time(), maxC: 3}
	w.root = &lcNode{S: p.Root}
	if len(c.Variant) > 5 && c.Variant[:5] == "bulk:" {
		if err := w.bulkPrefix(c.Variant[5:]); err != nil {
			return nil, err
		}
		w.tab.Add("block(5s)", func(n engine.Node) (engine.Node, []V) { return w.block(n, 5*time.Second) })
		return w, nil
	}
	// prefix: consumer 0 is already launched (owner A, v0 opted in), so that stop / deletion are in reach
	st := p.Root.Branch()
	if r := st.Deliver(env.MsgCreateConsumer(p.Users[0].Addr.String(), "lc", env.ConsumerInit{Spawn: st.Time()}.Params("lc"), nil)); r.Err != nil {
		return nil, r.Err
	}
	if r := st.Deliver(env.MsgOptIn(p.Vals[0], "0", nil)); r.Err != nil {
		return nil, r.Err
	}
	w.root = &lcNode{S: st}
	n, vs := w.block(w.root, 5*time.Second)
	w.rootVs = vs
	if n == nil {
		return nil, fmt.Errorf("prefix block: %v", vs)
	}
	w.root = n.(*lcNode)
	w.build()
	return w, nil
}

func (w *lcWorker) RootViolations() []V            { return w.rootVs }
func (w *lcWorker) Root() engine.Node              { return w.root }
func (w *lcWorker) Enabled(n engine.Node) []string { return w.tab.Names() }
func (w *lcWorker) Apply(n engine.Node, ev string) (engine.Node, []V) {
	return w.tab.Apply(n, ev)
}
func (w *lcWorker) Hash(n engine.Node) [32]byte {
	return n.(*lcNode).S.HashStores("provider", "staking", "ibc")
}

func (w *lcWorker) tx(name string, mk func(x *lcNode, pre lcSummary) sdk.Msg, judge func(pre, post lcSummary, err error) []V) {
	w.tab.Add(name, func(n engine.Node) (engine.Node, []V) {
		x := n.(*lcNode)
		pre := w.summary(x.S.Ctx)
		msg := mk(x, pre)
		if msg == nil {
			return nil, nil
		}
		c := &lcNode{S: x.S.Branch()}
		r := c.S.Deliver(msg)
		var vs []V
		if r.Err != nil {
			debugOnce("lifecycle:"+name, r.Err)
			w.stats.Count("tx-rejected:" + name)
			if judge != nil {
				vs = judge(pre, pre, r.Err)
			}
			return nil, vs
		}
		post := w.summary(c.S.Ctx)
		vs = w.judge(pre, post, name)
		if judge != nil {
			vs = append(vs, judge(pre, post, nil)...)
		}
		return c, vs
	})
}

func (w *lcWorker) build() {
	p := w.p
	A, B := p.Users[0].Addr.String(), p.Users[1].Addr.String()
	T1, T2 := w.t0.Add(10*time.Second), w.t0.Add(20*time.Second)
	w.tab.Add("block(5s)", func(n engine.Node) (engine.Node, []V) { return w.block(n, 5*time.Second) })
	w.tab.Add("block(U)", func(n engine.Node) (engine.Node, []V) { return w.block(n, p.Cfg.Unbonding) })
	type cr struct {
		name  string
		owner string
		spawn time.Time
		ps    *providertypes.PowerShapingParameters
	}
	for _, c := range []cr{{"create(A,spawn=0)", A, time.Time{}, nil}, {"create(A,spawn=past)", A, w.t0.Add(-time.Hour), nil},
		{"create(B,spawn=T1)", B, T1, nil}, {"create(A,spawn=T1)", A, T1, nil},
		{"create(A,spawn=past,allow-inactive)", A, w.t0.Add(-time.Hour), &providertypes.PowerShapingParameters{AllowInactiveVals: true}}} {
		c := c
		w.tx(c.name, func(x *lcNode, pre lcSummary) sdk.Msg {
			if int(pre.nextID) >= w.maxC {
				return nil
			}
			return env.MsgCreateConsumer(c.owner, "lc", env.ConsumerInit{Spawn: c.spawn}.Params("lc"), c.ps)
		}, func(pre, post lcSummary, err error) []V {
			if err != nil {
				return nil
			}
			var vs []V
			if post.nextID != pre.nextID+1 {
				vs = append(vs, vf("C10", "id-not-incremented-by-one", "create: next id %d -> %d", pre.nextID, post.nextID))
			}
			id := strconv.FormatUint(pre.nextID, 10)
			if _, ok := post.cons[id]; !ok || len(post.cons) != len(pre.cons)+1 {
				vs = append(vs, vf("C10", "id-not-issued-in-order", "create: expected new consumer id %s; consumers before %d after %d", id, len(pre.cons), len(post.cons)))
			}
			for oid, oc := range pre.cons { // an existing record must not be overwritten by the new id
				if nc := post.cons[oid]; nc.phase != oc.phase || nc.chainID != oc.chainID {
					vs = append(vs, vf("C10", "create-touched-existing", "create changed existing consumer %s", oid))
				}
			}
			return vs
		})
	}
	owners := map[string][]string{} // event owner candidates are tried in order A, B
	_ = owners
	ownerOf := func(x *lcNode, id string) string {
		o, _ := p.K.GetConsumerOwnerAddress(x.S.Ctx, id)
		return o
	}
	for _, id := range []string{"0", "1", "2"} {
		id := id
		if id == "0" {
			w.tx("remove(c0)", func(x *lcNode, pre lcSummary) sdk.Msg { return env.MsgRemoveConsumer(ownerOf(x, id), id) }, nil)
			continue
		}
		for _, sp := range []struct {
			n string
			t time.Time
		}{{"0", time.Time{}}, {"T1", T1}, {"T2", T2}} {
			sp := sp
			w.tx(fmt.Sprintf("update(c%s,spawn=%s)", id, sp.n), func(x *lcNode, pre lcSummary) sdk.Msg {
				c, ok := pre.cons[id]
				if !ok {
					return nil
				}
				return &providertypes.MsgUpdateConsumer{Owner: ownerOf(x, id), ConsumerId: id, InitializationParameters: env.ConsumerInit{Spawn: sp.t}.Params(c.chainID)}
			}, nil)
		}
		for _, nc := range []string{"lcx", "lc-2"} {
			nc := nc
			w.tx(fmt.Sprintf("update(c%s,chainid=%s)", id, nc), func(x *lcNode, pre lcSummary) sdk.Msg {
				c, ok := pre.cons[id]
				if !ok || c.chainID == nc {
					return nil
				}
				return &providertypes.MsgUpdateConsumer{Owner: ownerOf(x, id), ConsumerId: id, NewChainId: nc}
			}, nil)
		}
		for _, vi := range []int{0, 2} {
			vi := vi
			w.tx(fmt.Sprintf("optin(v%d,c%s)", vi, id), func(x *lcNode, pre lcSummary) sdk.Msg {
				if _, ok := pre.cons[id]; !ok || p.K.IsOptedIn(x.S.Ctx, id, p.Vals[vi].PAddr()) {
					return nil
				}
				return env.MsgOptIn(p.Vals[vi], id, nil)
			}, nil)
		}
		w.tx(fmt.Sprintf("remove(c%s)", id), func(x *lcNode, pre lcSummary) sdk.Msg {
			if _, ok := pre.cons[id]; !ok {
				return nil
			}
			return env.MsgRemoveConsumer(ownerOf(x, id), id)
		}, nil)
	}
}

// launchShouldSucceed: the initial set is non-empty and contains an active provider validator.
// Consumers of this scenario are opt-in chains with default power shaping (inactive validators
// not allowed), so the set is: opted-in ∧ bonded ∧ in the provider's consensus set.
func (w *lcWorker) launchShouldSucceed(ctx sdk.Context, id string) bool {
	p := w.p
	m := p.K.GetMaxProviderConsensusValidators(ctx)
	top, err := refTopM(p, ctx, m)
	if err != nil {
		return false
	}
	active := map[string]bool{}
	for _, t := range top {
		active[t.oper.String()] = true
	}
	// (with allow_inactive_vals an inactive validator may be in the set, but alone it cannot launch the chain)
	for _, v := range p.Vals {
		val, err := p.PApp.StakingKeeper.GetValidator(ctx, v.ValAddr())
		if err != nil || val.Status != stakingtypes.Bonded {
			continue
		}
		if p.K.IsOptedIn(ctx, id, v.PAddr()) && active[val.OperatorAddress] {
			return true
		}
	}
	return false
}

func (w *lcWorker) block(n engine.Node, dt time.Duration) (engine.Node, []V) {
	x := n.(*lcNode)
	c := &lcNode{S: x.S.Branch()}
	p := w.p
	pre := w.summary(c.S.Ctx)
	var vs []V
	var should map[string]bool
	r := c.S.NextBlock(dt, func(s *env.State, r *env.BlockResult) {
		should = map[string]bool{}
		for id, cn := range pre.cons {
			if cn.phase == providertypes.CONSUMER_PHASE_INITIALIZED {
				should[id] = w.launchShouldSucceed(s.Ctx, id)
			}
		}
	})
	vs = append(vs, haltViolation("provider", r)...)
	if r.Halt() != "" {
		return nil, vs
	}
	post := w.summary(c.S.Ctx)
	vs = append(vs, w.judge(pre, post, "block")...)
	now := c.S.Time()
	// which consumers were due, in queue order (time, then position)
	type due struct {
		id string
		t  time.Time
	}
	var dues []due
	for id, cn := range pre.cons {
		if cn.phase == providertypes.CONSUMER_PHASE_INITIALIZED && !cn.spawn.After(now) {
			dues = append(dues, due{id, cn.spawn})
		}
	}
	sort.Slice(dues, func(i, j int) bool { return dues[i].t.Before(dues[j].t) })
	processed := 0
	for id, cn := range pre.cons {
		nc := post.cons[id]
		switch cn.phase {
		case providertypes.CONSUMER_PHASE_INITIALIZED:
			if cn.spawn.After(now) {
				if nc.phase != cn.phase || !nc.spawn.Equal(cn.spawn) {
					vs = append(vs, vf("C10", "launched-before-spawn-time", "consumer %s (spawn %s) changed to %s in block with time %s", id, cn.spawn.UTC().Format(time.RFC3339), nc.phase, now.UTC().Format(time.RFC3339)))
				}
				w.stats.Count("not-due")
				continue
			}
			if nc.phase == providertypes.CONSUMER_PHASE_INITIALIZED {
				if len(dues) <= 200 {
					vs = append(vs, vf("C10", "due-consumer-not-processed", "consumer %s was due (spawn %s <= block time %s, %d due) but stays initialized", id, cn.spawn.UTC().Format(time.RFC3339), now.UTC().Format(time.RFC3339), len(dues)))
				}
				continue
			}
			processed++
			if should[id] {
				w.stats.Count("launch:success-expected")
				if nc.phase != providertypes.CONSUMER_PHASE_LAUNCHED {
					vs = append(vs, vf("C10", "launch-should-succeed", "consumer %s has an opted-in active validator but ended in phase %s", id, nc.phase))
				} else {
					vs = append(vs, w.judgeLaunched(c.S.Ctx, id)...)
				}
			} else {
				w.stats.Count("launch:failure-expected")
				if nc.phase != providertypes.CONSUMER_PHASE_REGISTERED || !nc.spawn.IsZero() {
					vs = append(vs, vf("C10", "failed-launch-not-registered", "consumer %s has no opted-in active validator; expected registered with spawn time cleared, got %s spawn %s", id, nc.phase, nc.spawn))
				}
				if _, found := p.K.GetConsumerClientId(c.S.Ctx, id); found {
					vs = append(vs, vf("C10", "failed-launch-left-client", "consumer %s failed to launch but has a client id", id))
				}
			}
		case providertypes.CONSUMER_PHASE_STOPPED:
			dueRemoval := cn.hasRemov && !cn.removal.After(now)
			if dueRemoval != (nc.phase == providertypes.CONSUMER_PHASE_DELETED) {
				vs = append(vs, vf("C10", "deletion-timing", "stopped consumer %s removal time %s, block time %s, phase after %s", id, cn.removal.UTC().Format(time.RFC3339), now.UTC().Format(time.RFC3339), nc.phase))
			}
		default:
			if nc.phase != cn.phase {
				vs = append(vs, vf("C10", "phase-changed-by-block", "consumer %s moved %s -> %s in a block without being due", id, cn.phase, nc.phase))
			}
		}
	}
	if len(dues) > 200 {
		w.stats.Count("more-than-200-due")
		if processed != 200 {
			vs = append(vs, vf("C10", "batch-limit", "%d consumers due, %d processed in one block (limit 200)", len(dues), processed))
		}
	} else if len(dues) > 0 {
		w.stats.Count("due-batch")
	}
	return c, vs
}

func (w *lcWorker) judgeLaunched(ctx sdk.Context, id string) []V {
	p := w.p
	var vs []V
	gen, found := p.K.GetConsumerGenesis(ctx, id)
	if !found {
		return []V{vf("C10", "no-genesis-after-launch", "consumer %s launched without a recorded genesis", id)}
	}
	set, err := p.K.GetConsumerValSet(ctx, id)
	if err != nil {
		return []V{vf("C10", "no-valset-after-launch", "%v", err)}
	}
	want := env.ValSet{}
	for _, v := range set {
		want[env.PubKeyID(v.PublicKey)] = v.Power
	}
	got := env.ValSet{}
	for _, u := range gen.Provider.InitialValSet {
		got[env.PubKeyID(&u.PubKey)] = u.Power
	}
	if !got.Equal(want) || len(got) == 0 {
		vs = append(vs, vf("C10", "genesis-valset", "consumer %s: genesis initial set %v, stored set %v", id, got, want))
	}
	if !gen.Params.Enabled || gen.Params.ConsumerId != id {
		vs = append(vs, vf("C10", "genesis-params", "consumer %s: genesis params enabled=%v consumer id %q", id, gen.Params.Enabled, gen.Params.ConsumerId))
	}
	if gen.Provider.ClientState == nil || gen.Provider.ClientState.ChainId != p.ChainID || gen.Provider.ConsensusState == nil {
		vs = append(vs, vf("C10", "genesis-provider-client", "consumer %s: genesis lacks the provider client / consensus state", id))
	}
	cid, found := p.K.GetConsumerClientId(ctx, id)
	if !found {
		return append(vs, vf("C10", "no-client-after-launch", "consumer %s launched without a light client", id))
	}
	cs, ok := p.PApp.IBCKeeper.ClientKeeper.GetClientState(ctx, cid)
	chain, _ := p.K.GetConsumerChainId(ctx, id)
	if !ok {
		vs = append(vs, vf("C10", "client-missing", "consumer %s: client %s does not exist", id, cid))
	} else if tm, isTm := cs.(interface{ GetChainID() string }); isTm && tm.GetChainID() != chain {
		vs = append(vs, vf("C10", "client-chain-id", "consumer %s (%s): client %s is for chain %s", id, chain, cid, tm.GetChainID()))
	}
	if back, ok := p.K.GetClientIdToConsumerId(ctx, cid); !ok || back != id {
		vs = append(vs, vf("C10", "client-reverse-index", "consumer %s: client %s maps back to %q", id, cid, back))
	}
	return vs
}

// bulkPrefix prepares many consumers due at once. layout: "205" | "150+100" | "199+2"
func (w *lcWorker) bulkPrefix(layout string) error {
	p := w.p
	st := p.Root.Branch()
	var groups []int
	cur := 0
	for _, ch := range layout + "+" {
		if ch == '+' {
			groups = append(groups, cur)
			cur = 0
		} else {
			cur = cur*10 + int(ch-'0')
		}
	}
	A := p.Users[0].Addr.String()
	n := 0
	for gi, g := range groups {
		spawn := w.t0.Add(time.Duration(2+gi) * time.Second)
		for i := 0; i < g; i++ {
			if r := st.Deliver(env.MsgCreateConsumer(A, "bulk", env.ConsumerInit{Spawn: spawn}.Params("bulk"), nil)); r.Err != nil {
				return r.Err
			}
			id := strconv.Itoa(n)
			// every third consumer has no opt-in (its launch fails), the others opt in v0
			if n%3 != 2 {
				if r := st.Deliver(env.MsgOptIn(p.Vals[0], id, nil)); r.Err != nil {
					return r.Err
				}
			}
			n++
		}
	}
	w.root = &lcNode{S: st}
	return nil
}

func (w *lcWorker) ProviderForTier2() *env.Provider { return w.p }
