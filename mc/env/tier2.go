package env

import (
	"bytes"
	"fmt"
	"math/rand"
	"os"
	"time"

	"cosmossdk.io/log"

	cmtproto "github.com/cometbft/cometbft/proto/tendermint/types"
	dbm "github.com/cosmos/cosmos-db"
	"github.com/cosmos/cosmos-sdk/baseapp"
	"github.com/cosmos/cosmos-sdk/client"
	"github.com/cosmos/cosmos-sdk/codec"
	cryptotypes "github.com/cosmos/cosmos-sdk/crypto/types"
	simtestutil "github.com/cosmos/cosmos-sdk/testutil/sims"
	sdk "github.com/cosmos/cosmos-sdk/types"
	ibckeeper "github.com/cosmos/ibc-go/v10/modules/core/keeper"

	abci "github.com/cometbft/cometbft/abci/types"
	cmttypes "github.com/cometbft/cometbft/types"

	appConsumer "github.com/cosmos/interchain-security/v7/app/consumer"
	appProvider "github.com/cosmos/interchain-security/v7/app/provider"
	consumertypes "github.com/cosmos/interchain-security/v7/x/ccv/consumer/types"
	providertypes "github.com/cosmos/interchain-security/v7/x/ccv/provider/types"
	ccv "github.com/cosmos/interchain-security/v7/x/ccv/types"
)

// Tier2Stores are compared byte for byte between the branching driver and the full ABCI stack.
var Tier2Stores = []string{"provider", "staking", "slashing"}

// FullApp is what the conformance replay needs from an application (both apps offer it).
type FullApp interface {
	ABCIApp
	InitChain(*abci.RequestInitChain) (*abci.ResponseInitChain, error)
	FinalizeBlock(*abci.RequestFinalizeBlock) (*abci.ResponseFinalizeBlock, error)
	Commit() (*abci.ResponseCommit, error)
	NewUncachedContext(isCheckTx bool, header cmtproto.Header) sdk.Context
	TxConfig() client.TxConfig
	AppCodec() codec.Codec
	GetIBCKeeper() *ibckeeper.Keeper
	LoadLatestVersion() error
	AnteHandler() sdk.AnteHandler
	SetAnteHandler(sdk.AnteHandler)
	SetEndBlocker(sdk.EndBlocker)
}

// ReplaySpec describes the chain a recorded execution belongs to.
type ReplaySpec struct {
	NewApp      func() FullApp // built with loadLatest=false so that the two replay hooks can be installed
	ChainID     string
	Genesis     []byte
	GenesisTime time.Time
	InitVals    []abci.ValidatorUpdate
	Accts       []Acct // genesis accounts in account-number order
}

// ReplayThroughABCI executes a recorded linear execution of the provider (fixture prefix + trace).
func ReplayThroughABCI(p *Provider, rec *Recorder) (blocks int, err error) {
	return ReplayChain(ReplaySpec{
		NewApp: func() FullApp {
			return appProvider.New(log.NewNopLogger(), dbm.NewMemDB(), nil, false, simtestutil.EmptyAppOptions{}, baseapp.SetChainID(p.Cfg.ChainID))
		},
		ChainID: p.Cfg.ChainID, Genesis: p.GenesisBytes, GenesisTime: GenesisTime, InitVals: p.InitVals, Accts: p.Accts,
	}, rec)
}

// ReplayConsumerThroughABCI does the same for a consumer chain booted by ConsumerApp.Boot.
func ReplayConsumerThroughABCI(chainID string, rec *Recorder) (blocks int, err error) {
	return ReplayChain(ReplaySpec{
		NewApp: func() FullApp {
			return appConsumer.New(log.NewNopLogger(), dbm.NewMemDB(), nil, false, simtestutil.EmptyAppOptions{}, baseapp.SetChainID(chainID))
		},
		ChainID: chainID, Genesis: rec.Genesis, GenesisTime: rec.GenesisTime, InitVals: rec.InitVals, Accts: []Acct{Relayer},
	}, rec)
}

// ReplayChain executes a recorded linear execution on a freshly built application through the real
// ABCI entry points — InitChain, FinalizeBlock with signed transactions going through the ante
// handlers (IBC core messages included), Commit (IAVL, app hash) — and compares, after every block,
// the committed content of the recorded stores and the returned validator updates with what the
// branching driver produced at the same point.
// Two things the relayer model does have no transaction form and are re-applied through hooks
// installed before the application is sealed: light-client refreshes (written at the recorded
// position: before the transaction they preceded, or before EndBlock) and proof verification (the
// oracle accepts exactly the claims that were verified against the real counterparty).
// Masked: HistoricalInfo (contains header hashes) and the consensus-state root /
// next-validators hash inside recorded consumer genesis states (taken from the header).
func ReplayChain(spec ReplaySpec, rec *Recorder) (blocks int, err error) {
	if rec.Tainted != "" {
		return 0, fmt.Errorf("not replayable: %s", rec.Tainted)
	}
	app := spec.NewApp()
	// hooks: refreshes due before transaction #i of the current block / before EndBlock
	var beforeTx map[int][]RecOp
	var beforeEnd []RecOp
	txIndex := 0
	var hookErr error
	apply := func(ctx sdk.Context, ops []RecOp) {
		if os.Getenv("VERIF_T2_SABOTAGE") == "norefresh" {
			return // self-test of the comparison: without the refreshes the replay must disagree
		}
		for _, op := range ops {
			if op.Raw != nil {
				cctx, write := ctx.CacheContext()
				if err := op.Raw(app, cctx); err != nil {
					if hookErr == nil {
						hookErr = fmt.Errorf("harness-level operation %q succeeded in the driver but fails in the ABCI replay: %w", op.RawName, err)
					}
					continue
				}
				write()
				continue
			}
			r := op.Refresh
			if r.Force {
				forceRefreshClient(ctx, app.GetIBCKeeper(), r.ClientID, r.Height, r.Time)
			} else {
				refreshClient(ctx, app.GetIBCKeeper(), r.ClientID, r.Height, r.Time)
			}
		}
	}
	orig := app.AnteHandler()
	app.SetAnteHandler(func(ctx sdk.Context, tx sdk.Tx, simulate bool) (sdk.Context, error) {
		apply(ctx, beforeTx[txIndex])
		txIndex++
		return orig(ctx, tx, simulate)
	})
	app.SetEndBlocker(func(ctx sdk.Context) (sdk.EndBlock, error) {
		apply(ctx, beforeEnd)
		return app.EndBlocker(ctx)
	})
	if err := app.LoadLatestVersion(); err != nil {
		return 0, fmt.Errorf("LoadLatestVersion: %w", err)
	}
	if len(rec.Claims) > 0 {
		o := OracleFor(app.GetIBCKeeper())
		o.Recorded = map[string]int{}
		for _, c := range rec.Claims {
			if os.Getenv("VERIF_T2_SABOTAGE") == "noclaims" {
				break // self-test: without the recorded claims every IBC transaction must fail in the replay
			}
			o.Recorded[claimKey(c.Store, c.Key, c.Value)]++
		}
	}
	cp := cmttypes.DefaultConsensusParams().ToProto()
	res, err := app.InitChain(&abci.RequestInitChain{ChainId: spec.ChainID, Time: spec.GenesisTime, InitialHeight: 1, ConsensusParams: &cp, AppStateBytes: spec.Genesis})
	if err != nil {
		return 0, fmt.Errorf("InitChain: %w", err)
	}
	if a, b := fmt.Sprint(sortUpdates(res.Validators)), fmt.Sprint(sortUpdates(spec.InitVals)); a != b {
		return 0, fmt.Errorf("InitChain validators differ: ABCI %s, driver %s", a, b)
	}
	accNum := map[string]uint64{}
	seq := map[string]uint64{}
	priv := map[string]cryptotypes.PrivKey{}
	for i, a := range spec.Accts {
		accNum[a.Addr.String()] = uint64(i)
		priv[a.Addr.String()] = a.Priv
	}
	txCfg := app.TxConfig()
	rnd := rand.New(rand.NewSource(1))
	height := int64(1)
	blockTime := spec.GenesisTime.Add(5 * time.Second)
	var txs [][]byte
	var expectRejected []bool
	beforeTx = map[int][]RecOp{}
	for _, op := range rec.Ops {
		if op.Refresh != nil || op.Raw != nil {
			beforeTx[len(txs)] = append(beforeTx[len(txs)], op)
			continue
		}
		if !op.Block {
			signers, _, e := app.AppCodec().GetMsgV1Signers(op.Msg)
			if e != nil || len(signers) != 1 {
				return blocks, fmt.Errorf("not replayable: cannot determine the signer of %T", op.Msg)
			}
			addr := sdk.AccAddress(signers[0]).String()
			pk, ok := priv[addr]
			if !ok {
				return blocks, fmt.Errorf("not replayable: %T is signed by %s (module account), which only a governance proposal can do", op.Msg, addr)
			}
			tx, e := simtestutil.GenSignedMockTx(rnd, txCfg, []sdk.Msg{op.Msg}, sdk.NewCoins(), 50_000_000, spec.ChainID, []uint64{accNum[addr]}, []uint64{seq[addr]}, pk)
			if e != nil {
				return blocks, fmt.Errorf("signing %T: %w", op.Msg, e)
			}
			bz, e := txCfg.TxEncoder()(tx)
			if e != nil {
				return blocks, e
			}
			seq[addr]++
			txs = append(txs, bz)
			expectRejected = append(expectRejected, op.Rejected)
			continue
		}
		if op.Height != height {
			return blocks, fmt.Errorf("recorded block height %d, ABCI replay is at %d", op.Height, height)
		}
		// refreshes recorded after the last transaction happen right before EndBlock
		beforeEnd = beforeTx[len(txs)]
		delete(beforeTx, len(txs))
		txIndex = 0
		fr, e := app.FinalizeBlock(&abci.RequestFinalizeBlock{Height: height, Time: blockTime, Txs: txs})
		if e != nil {
			return blocks, fmt.Errorf("FinalizeBlock(%d): %w", height, e)
		}
		if hookErr != nil {
			return blocks, fmt.Errorf("block %d: %w", height, hookErr)
		}
		for i, r := range fr.TxResults {
			if (r.Code != 0) != expectRejected[i] {
				return blocks, fmt.Errorf("block %d tx %d: ABCI code %d (%s), the driver rejected=%v", height, i, r.Code, r.Log, expectRejected[i])
			}
		}
		if a, b := fmt.Sprint(sortUpdates(fr.ValidatorUpdates)), fmt.Sprint(sortUpdates(op.ValUpdates)); a != b {
			return blocks, fmt.Errorf("block %d: validator updates differ: ABCI %s, driver %s", height, a, b)
		}
		if _, e := app.Commit(); e != nil {
			return blocks, fmt.Errorf("Commit(%d): %w", height, e)
		}
		ctx := app.NewUncachedContext(false, WithHeader(sdk.Context{}, spec.ChainID, height, blockTime).BlockHeader())
		for _, st := range rec.Stores {
			if d := diffMasked(st, op.Dumps[st], Dump(ctx, app, st)); d != "" {
				return blocks, fmt.Errorf("block %d: store %q differs between the driver and the ABCI stack: %s", height, st, d)
			}
		}
		blocks++
		height++
		blockTime = op.NextTime
		txs, expectRejected = nil, nil
		beforeTx = map[int][]RecOp{}
	}
	return blocks, nil
}

func sortUpdates(u []abci.ValidatorUpdate) []string {
	var out []string
	for _, x := range u {
		out = append(out, fmt.Sprintf("%s:%d", short(PubKeyID(&x.PubKey)), x.Power))
	}
	for i := range out {
		for j := i + 1; j < len(out); j++ {
			if out[j] < out[i] {
				out[i], out[j] = out[j], out[i]
			}
		}
	}
	return out
}

func maskKV(store string, kv KV) (KV, bool) {
	if store == "staking" && len(kv.K) > 0 && kv.K[0] == 0x50 { // HistoricalInfoKey: header hashes
		return kv, false
	}
	if store == consumertypes.StoreKey && len(kv.K) > 0 && kv.K[0] == consumertypes.HistoricalInfoKeyPrefix()[0] {
		return kv, false
	}
	if store == "provider" && len(kv.K) > 0 && kv.K[0] == providertypes.ConsumerGenesisKey("x")[0] {
		var g ccv.ConsumerGenesisState
		if err := g.Unmarshal(kv.V); err == nil && g.Provider.ConsensusState != nil {
			g.Provider.ConsensusState.Root.Hash = nil
			g.Provider.ConsensusState.NextValidatorsHash = nil
			bz, _ := g.Marshal()
			return KV{K: kv.K, V: bz}, true
		}
	}
	return kv, true
}

func diffMasked(store string, a, b []KV) string {
	var ma, mb []KV
	for _, kv := range a {
		if m, keep := maskKV(store, kv); keep {
			ma = append(ma, m)
		}
	}
	for _, kv := range b {
		if m, keep := maskKV(store, kv); keep {
			mb = append(mb, m)
		}
	}
	d := DiffKV(ma, mb)
	if len(d) == 0 {
		return ""
	}
	k := d[0]
	var va, vb []byte
	for _, kv := range ma {
		if bytes.Equal(kv.K, k) {
			va = kv.V
		}
	}
	for _, kv := range mb {
		if bytes.Equal(kv.K, k) {
			vb = kv.V
		}
	}
	return fmt.Sprintf("%d keys differ; first key %x: driver %x, ABCI %x", len(d), k, va, vb)
}
