package env

import (
	"time"

	"cosmossdk.io/math"

	sdk "github.com/cosmos/cosmos-sdk/types"
	clienttypes "github.com/cosmos/ibc-go/v10/modules/core/02-client/types"

	providertypes "github.com/cosmos/interchain-security/v7/x/ccv/provider/types"
)

// ConsumerInit describes the initialization parameters a fixture uses.
type ConsumerInit struct {
	Spawn       time.Time
	Unbonding   time.Duration
	CcvTimeout  time.Duration
	XferTimeout time.Duration
	Fraction    string
	BlocksPerTx int64
	ConnID      string
	Revision    *uint64 // default: revision parsed from the chain id
	Historical  int64   // historical entries the consumer keeps (default: the module default, 10000)
}

func (ci ConsumerInit) Params(chainID string) *providertypes.ConsumerInitializationParameters {
	rev := clienttypes.ParseChainID(chainID)
	if ci.Revision != nil {
		rev = *ci.Revision
	}
	p := providertypes.DefaultConsumerInitializationParameters()
	p.InitialHeight = clienttypes.Height{RevisionNumber: rev, RevisionHeight: 1}
	p.SpawnTime = ci.Spawn
	if ci.Unbonding != 0 {
		p.UnbondingPeriod = ci.Unbonding
	}
	if ci.CcvTimeout != 0 {
		p.CcvTimeoutPeriod = ci.CcvTimeout
	}
	if ci.Historical != 0 {
		p.HistoricalEntries = ci.Historical
	}
	if ci.XferTimeout != 0 {
		p.TransferTimeoutPeriod = ci.XferTimeout
	}
	if ci.Fraction != "" {
		p.ConsumerRedistributionFraction = ci.Fraction
	}
	if ci.BlocksPerTx != 0 {
		p.BlocksPerDistributionTransmission = ci.BlocksPerTx
	}
	p.ConnectionId = ci.ConnID
	return &p
}

func MsgCreateConsumer(owner string, chainID string, init *providertypes.ConsumerInitializationParameters, ps *providertypes.PowerShapingParameters) *providertypes.MsgCreateConsumer {
	return &providertypes.MsgCreateConsumer{
		Submitter:                owner,
		ChainId:                  chainID,
		Metadata:                 providertypes.ConsumerMetadata{Name: "c-" + chainID, Description: "d", Metadata: "m"},
		InitializationParameters: init,
		PowerShapingParameters:   ps,
	}
}

func MsgOptIn(v Val, consumerID string, key *ConsKey) sdk.Msg {
	m := &providertypes.MsgOptIn{ProviderAddr: v.ValAddr().String(), ConsumerId: consumerID, Signer: v.Oper.Addr.String()}
	if key != nil {
		m.ConsumerKey = key.JSON()
	}
	return m
}

func MsgOptOut(v Val, consumerID string) sdk.Msg {
	return &providertypes.MsgOptOut{ProviderAddr: v.ValAddr().String(), ConsumerId: consumerID, Signer: v.Oper.Addr.String()}
}

func MsgAssignKey(v Val, consumerID string, key ConsKey) sdk.Msg {
	return &providertypes.MsgAssignConsumerKey{ProviderAddr: v.ValAddr().String(), ConsumerId: consumerID, Signer: v.Oper.Addr.String(), ConsumerKey: key.JSON()}
}

func MsgRemoveConsumer(owner, consumerID string) sdk.Msg {
	return &providertypes.MsgRemoveConsumer{Owner: owner, ConsumerId: consumerID}
}

func MsgSetCommission(v Val, consumerID string, rate string) sdk.Msg {
	return &providertypes.MsgSetConsumerCommissionRate{ProviderAddr: v.ValAddr().String(), ConsumerId: consumerID, Signer: v.Oper.Addr.String(), Rate: math.LegacyMustNewDecFromStr(rate)}
}
