// Command seamtool instruments every `range` over a map in the non-test, non-generated Go files of
// the given packages of /repo (current working tree) so that the iteration order becomes a
// choice the model checker owns. It writes instrumented copies plus a go-build overlay file, and a
// report of the map-range sites and of other nondeterminism sources in the consensus path.
//
//	seamtool -repo /repo -out /var/tmp/verif-seam ./x/ccv/...
package main

import (
	"bytes"
	"encoding/json"
	"flag"
	"fmt"
	"go/ast"
	"go/format"
	"go/token"
	"go/types"
	"os"
	"path/filepath"
	"sort"
	"strings"

	"golang.org/x/tools/go/packages"
)

const seamImport = "github.com/cosmos/interchain-security/v7/x/ccv/verifseam"

type site struct {
	ID   string `json:"id"`
	File string `json:"file"`
	Line int    `json:"line"`
	Expr string `json:"expr"`
	Func string `json:"func"`
}

type finding struct {
	Kind string `json:"kind"`
	File string `json:"file"`
	Line int    `json:"line"`
	What string `json:"what"`
}

func main() {
	repo := flag.String("repo", "/repo", "repository root")
	out := flag.String("out", "/var/tmp/verif-seam", "output directory")
	flag.Parse()
	pats := flag.Args()
	if len(pats) == 0 {
		pats = []string{"./x/ccv/..."}
	}
	cfg := &packages.Config{Mode: packages.NeedName | packages.NeedFiles | packages.NeedCompiledGoFiles | packages.NeedSyntax | packages.NeedTypes | packages.NeedTypesInfo | packages.NeedImports,
		Dir: *repo, Env: append(os.Environ(), "GOFLAGS=-mod=mod", "GOPROXY=off")}
	pkgs, err := packages.Load(cfg, pats...)
	if err != nil {
		fmt.Fprintln(os.Stderr, "load:", err)
		os.Exit(2)
	}
	if packages.PrintErrors(pkgs) > 0 {
		os.Exit(2)
	}
	_ = os.RemoveAll(*out)
	if err := os.MkdirAll(*out, 0o755); err != nil {
		panic(err)
	}
	overlay := map[string]string{}
	var sites []site
	var finds []finding
	for _, pkg := range pkgs {
		if strings.Contains(pkg.PkgPath, "/verifseam") {
			continue
		}
		for i, f := range pkg.Syntax {
			path := pkg.CompiledGoFiles[i]
			if strings.HasSuffix(path, "_test.go") || strings.HasSuffix(path, ".pb.go") || strings.HasSuffix(path, ".pb.gw.go") || strings.Contains(path, "/simulation/") || strings.Contains(path, "/client/") {
				continue
			}
			rel, _ := filepath.Rel(*repo, path)
			changed := false
			var curFunc string
			ast.Inspect(f, func(n ast.Node) bool {
				switch x := n.(type) {
				case *ast.FuncDecl:
					curFunc = x.Name.Name
				case *ast.RangeStmt:
					tv, ok := pkg.TypesInfo.Types[x.X]
					if !ok {
						return true
					}
					if _, isMap := tv.Type.Underlying().(*types.Map); !isMap {
						return true
					}
					pos := pkg.Fset.Position(x.Pos())
					id := fmt.Sprintf("%s:%d", rel, pos.Line)
					var eb bytes.Buffer
					_ = format.Node(&eb, pkg.Fset, x.X)
					sites = append(sites, site{ID: id, File: rel, Line: pos.Line, Expr: eb.String(), Func: curFunc})
					x.X = &ast.CallExpr{Fun: &ast.SelectorExpr{X: ast.NewIdent("verifseam"), Sel: ast.NewIdent("Order")},
						Args: []ast.Expr{x.X, &ast.BasicLit{Kind: token.STRING, Value: fmt.Sprintf("%q", id)}}}
					changed = true
				case *ast.GoStmt:
					pos := pkg.Fset.Position(x.Pos())
					finds = append(finds, finding{"go-statement", rel, pos.Line, "goroutine started"})
				case *ast.SelectStmt:
					pos := pkg.Fset.Position(x.Pos())
					finds = append(finds, finding{"select", rel, pos.Line, "select statement"})
				case *ast.SelectorExpr:
					if id, ok := x.X.(*ast.Ident); ok {
						if obj, ok := pkg.TypesInfo.Uses[id].(*types.PkgName); ok {
							p := obj.Imported().Path()
							pos := pkg.Fset.Position(x.Pos())
							switch {
							case p == "time" && (x.Sel.Name == "Now" || x.Sel.Name == "Since" || x.Sel.Name == "Until"):
								finds = append(finds, finding{"wall-clock", rel, pos.Line, "time." + x.Sel.Name})
							case p == "math/rand" || p == "math/rand/v2" || p == "crypto/rand":
								finds = append(finds, finding{"randomness", rel, pos.Line, p + "." + x.Sel.Name})
							case p == "unsafe":
								finds = append(finds, finding{"unsafe", rel, pos.Line, "unsafe." + x.Sel.Name})
							}
						}
					}
				case *ast.BasicLit:
					if x.Kind == token.STRING && strings.Contains(x.Value, "%p") {
						pos := pkg.Fset.Position(x.Pos())
						finds = append(finds, finding{"pointer-format", rel, pos.Line, x.Value})
					}
				}
				return true
			})
			if !changed {
				continue
			}
			addImport(f)
			var buf bytes.Buffer
			if err := format.Node(&buf, pkg.Fset, f); err != nil {
				panic(err)
			}
			dst := filepath.Join(*out, strings.ReplaceAll(rel, "/", "__"))
			if err := os.WriteFile(dst, buf.Bytes(), 0o644); err != nil {
				panic(err)
			}
			overlay[path] = dst
		}
	}
	// the virtual package
	seamSrc, err := os.ReadFile(filepath.Join(filepath.Dir(os.Args[0]), "..", "seamtool", "verifseam.go.txt"))
	if err != nil {
		seamSrc, err = os.ReadFile("/verif/seamtool/verifseam.go.txt")
		if err != nil {
			panic(err)
		}
	}
	seamDst := filepath.Join(*out, "verifseam.go")
	_ = os.WriteFile(seamDst, seamSrc, 0o644)
	overlay[filepath.Join(*repo, "x/ccv/verifseam/seam.go")] = seamDst
	ob, _ := json.MarshalIndent(map[string]any{"Replace": overlay}, "", " ")
	_ = os.WriteFile(filepath.Join(*out, "overlay.json"), ob, 0o644)
	sort.Slice(sites, func(i, j int) bool { return sites[i].ID < sites[j].ID })
	rb, _ := json.MarshalIndent(map[string]any{"map_range_sites": sites, "other_nondeterminism_sources": finds}, "", " ")
	_ = os.WriteFile(filepath.Join(*out, "report.json"), rb, 0o644)
	fmt.Printf("seamtool: %d map-range sites instrumented in %d files, %d other findings; overlay %s\n", len(sites), len(overlay)-1, len(finds), filepath.Join(*out, "overlay.json"))
}

func addImport(f *ast.File) {
	for _, im := range f.Imports {
		if strings.Trim(im.Path.Value, `"`) == seamImport {
			return
		}
	}
	spec := &ast.ImportSpec{Path: &ast.BasicLit{Kind: token.STRING, Value: fmt.Sprintf("%q", seamImport)}}
	decl := &ast.GenDecl{Tok: token.IMPORT, Specs: []ast.Spec{spec}}
	f.Decls = append([]ast.Decl{decl}, f.Decls...)
	f.Imports = append(f.Imports, spec)
}
