package scen

import (
	"bytes"
	"context"
	"errors"
	"fmt"
	"runtime"
	"strings"
	"sync"
	"time"

	"cosmossdk.io/math"

	sdk "github.com/cosmos/cosmos-sdk/types"
	minttypes "github.com/cosmos/cosmos-sdk/x/mint/types"
	stakingtypes "github.com/cosmos/cosmos-sdk/x/staking/types"
	clienttypes "github.com/cosmos/ibc-go/v10/modules/core/02-client/types"
	conntypes "github.com/cosmos/ibc-go/v10/modules/core/03-connection/types"
	channeltypes "github.com/cosmos/ibc-go/v10/modules/core/04-channel/types"
	ibcexported "github.com/cosmos/ibc-go/v10/modules/core/exported"

	"verif/mc/engine"
	"verif/mc/env"

	providerkeeper "github.com/cosmos/interchain-security/v7/x/ccv/provider/keeper"
	providertypes "github.com/cosmos/interchain-security/v7/x/ccv/provider/types"
	ccv "github.com/cosmos/interchain-security/v7/x/ccv/types"
)

// ---------------------------------------------------------------------------------------------
// fault controller + keeper decorators (C19 part ii)

var errInjected = errors.New("verif: injected fault")

// faultCtl counts the external-module calls made from inside one of the per-consumer operations
// the property names and makes call number Fail (0-based) fail.
type faultCtl struct {
	mu    sync.Mutex
	Armed bool
	Fail  int
	n     int
	Calls []string // "<operation>/<external call>" in call order
}

var faultOps = []string{"LaunchConsumer", "DeleteConsumerChain", "AllocateConsumerRewards", "SendVSCPacketsToChain"}

// hit reports whether the current external call must fail.
func (f *faultCtl) hit(call string) bool {
	if f == nil || !f.Armed {
		return false
	}
	pcs := make([]uintptr, 48)
	k := runtime.Callers(2, pcs)
	frames := runtime.CallersFrames(pcs[:k])
	op := ""
	for {
		fr, more := frames.Next()
		if strings.Contains(fr.Function, "x/ccv/provider/keeper.Keeper.") {
			for _, o := range faultOps {
				if strings.HasSuffix(fr.Function, "Keeper."+o) {
					op = o
				}
			}
		}
		if !more {
			break
		}
	}
	if op == "" {
		return false
	}
	f.mu.Lock()
	defer f.mu.Unlock()
	i := f.n
	f.n++
	f.Calls = append(f.Calls, op+"/"+call)
	return i == f.Fail
}

type fStaking struct {
	ccv.StakingKeeper
	f *faultCtl
}

func (s fStaking) UnbondingTime(ctx context.Context) (time.Duration, error) {
	if s.f.hit("staking.UnbondingTime") {
		return 0, errInjected
	}
	return s.StakingKeeper.UnbondingTime(ctx)
}
func (s fStaking) GetValidatorByConsAddr(ctx context.Context, a sdk.ConsAddress) (stakingtypes.Validator, error) {
	if s.f.hit("staking.GetValidatorByConsAddr") {
		return stakingtypes.Validator{}, errInjected
	}
	return s.StakingKeeper.GetValidatorByConsAddr(ctx, a)
}
func (s fStaking) GetLastValidatorPower(ctx context.Context, a sdk.ValAddress) (int64, error) {
	if s.f.hit("staking.GetLastValidatorPower") {
		return 0, errInjected
	}
	return s.StakingKeeper.GetLastValidatorPower(ctx, a)
}
func (s fStaking) GetHistoricalInfo(ctx context.Context, h int64) (stakingtypes.HistoricalInfo, error) {
	if s.f.hit("staking.GetHistoricalInfo") {
		return stakingtypes.HistoricalInfo{}, errInjected
	}
	return s.StakingKeeper.GetHistoricalInfo(ctx, h)
}

type fClient struct {
	ccv.ClientKeeper
	f *faultCtl
}

func (c fClient) CreateClient(ctx sdk.Context, t string, cs, cons []byte) (string, error) {
	if c.f.hit("client.CreateClient") {
		return "", errInjected
	}
	return c.ClientKeeper.CreateClient(ctx, t, cs, cons)
}
func (c fClient) GetClientState(ctx sdk.Context, id string) (ibcexported.ClientState, bool) {
	if c.f.hit("client.GetClientState") {
		return nil, false
	}
	return c.ClientKeeper.GetClientState(ctx, id)
}

type fConn struct {
	ccv.ConnectionKeeper
	f *faultCtl
}

func (c fConn) GetConnection(ctx sdk.Context, id string) (conntypes.ConnectionEnd, bool) {
	if c.f.hit("connection.GetConnection") {
		return conntypes.ConnectionEnd{}, false
	}
	return c.ConnectionKeeper.GetConnection(ctx, id)
}

type fChan struct {
	ccv.ChannelKeeper
	f *faultCtl
}

func (c fChan) SendPacket(ctx sdk.Context, port, ch string, th clienttypes.Height, ts uint64, data []byte) (uint64, error) {
	if c.f.hit("channel.SendPacket") {
		return 0, errInjected
	}
	return c.ChannelKeeper.SendPacket(ctx, port, ch, th, ts, data)
}
func (c fChan) ChanCloseInit(ctx sdk.Context, port, ch string) error {
	if c.f.hit("channel.ChanCloseInit") {
		return errInjected
	}
	return c.ChannelKeeper.ChanCloseInit(ctx, port, ch)
}
func (c fChan) GetChannel(ctx sdk.Context, port, ch string) (channeltypes.Channel, bool) {
	if c.f.hit("channel.GetChannel") {
		return channeltypes.Channel{}, false
	}
	return c.ChannelKeeper.GetChannel(ctx, port, ch)
}

type fBank struct {
	ccv.BankKeeper
	f *faultCtl
}

func (b fBank) SendCoinsFromModuleToModule(ctx context.Context, from, to string, amt sdk.Coins) error {
	if b.f.hit("bank.SendCoinsFromModuleToModule") {
		return errInjected
	}
	return b.BankKeeper.SendCoinsFromModuleToModule(ctx, from, to, amt)
}

type fDistr struct {
	ccv.DistributionKeeper
	f *faultCtl
}

func (d fDistr) FundCommunityPool(ctx context.Context, amt sdk.Coins, sender sdk.AccAddress) error {
	if d.f.hit("distribution.FundCommunityPool") {
		return errInjected
	}
	return d.DistributionKeeper.FundCommunityPool(ctx, amt, sender)
}
func (d fDistr) GetCommunityTax(ctx context.Context) (math.LegacyDec, error) {
	if d.f.hit("distribution.GetCommunityTax") {
		return math.LegacyDec{}, errInjected
	}
	return d.DistributionKeeper.GetCommunityTax(ctx)
}
func (d fDistr) AllocateTokensToValidator(ctx context.Context, v stakingtypes.ValidatorI, r sdk.DecCoins) error {
	if d.f.hit("distribution.AllocateTokensToValidator") {
		return errInjected
	}
	return d.DistributionKeeper.AllocateTokensToValidator(ctx, v, r)
}

// installFaults replaces the app's provider keeper (in place: the module manager, msg server, hooks
// and IBC module all hold a pointer to it) by one built with the exported constructor over the same
// store and the decorated external keepers. Nothing fails unless the controller is armed.
func installFaults(p *env.Provider, f *faultCtl) {
	app := p.PApp
	app.ProviderKeeper = providerkeeper.NewKeeper(app.AppCodec(), app.GetKey(providertypes.StoreKey), app.GetSubspace(providertypes.ModuleName),
		fChan{app.IBCKeeper.ChannelKeeper, f}, fConn{app.IBCKeeper.ConnectionKeeper, f}, fClient{app.IBCKeeper.ClientKeeper, f},
		fStaking{app.StakingKeeper, f}, app.SlashingKeeper, app.AccountKeeper, fDistr{app.DistrKeeper, f}, fBank{app.BankKeeper, f},
		*app.GovKeeper, p.GovAddr, app.StakingKeeper.ValidatorAddressCodec(), app.StakingKeeper.ConsensusAddressCodec(), "fee_collector")
	p.K = app.ProviderKeeper
}

// ---------------------------------------------------------------------------------------------
// the fixture and the grid

type faultFixture struct {
	// per-block-boundary cache of the reference slicings (see judge)
	cacheValid      bool // reset by the caller for every new block boundary
	cPreOwn, cOkOwn map[string]map[string][]byte
	cOkGlobal       map[string][]byte
	cOkBank         map[string][]env.KV
	ctl             *faultCtl
	p               *env.Provider
	pre             env.State // inside the block whose EndBlock sends packets; its successor's BeginBlock launches / deletes / pays
	ids             []string
	desc            map[string]string
}

func buildFaultFixture() (*faultFixture, error) {
	p, err := env.NewProvider(env.ProviderCfg{SelfTokens: []int64{2 * unit, 2 * unit, 2 * unit}, Users: 1, RewardEpochs: 1})
	if err != nil {
		return nil, err
	}
	ctl := &faultCtl{}
	installFaults(p, ctl)
	xw := &XWorld{P: p, CA: env.NewConsumerApp(), Stats: engine.NewStats(), Delay: 1}
	st := p.Root.Branch()
	A := p.Users[0].Addr.String()
	must := func(s *env.State, m sdk.Msg) error {
		if r := s.Deliver(m); r.Err != nil {
			return fmt.Errorf("%T: %w", m, r.Err)
		}
		return nil
	}
	ff := &faultFixture{p: p, ctl: ctl, desc: map[string]string{}}
	// consumers 0..3 launch now: 0,1 keep running (packets, rewards), 2,3 will be stopped (deletion)
	for i := 0; i < 4; i++ {
		id := fmt.Sprint(i)
		chain := "flt-" + id
		if err := must(&st, env.MsgCreateConsumer(A, chain, env.ConsumerInit{Spawn: st.Time()}.Params(chain), nil)); err != nil {
			return nil, err
		}
		for vi := range p.Vals {
			if i == 1 && vi > 0 {
				continue // consumer 1: only v0
			}
			if err := must(&st, env.MsgOptIn(p.Vals[vi], id, nil)); err != nil {
				return nil, err
			}
		}
	}
	n := &XNode{P: st, C: map[string]env.State{}, L: map[string]env.Link{}}
	if r := xw.PBlock(n, 0, nil); r.Halt() != "" {
		return nil, fmt.Errorf("prefix block: %s", r.Halt())
	}
	for i := 0; i < 4; i++ {
		id := fmt.Sprint(i)
		if _, err := xw.Boot(n, id); err != nil {
			return nil, fmt.Errorf("boot %s: %w", id, err)
		}
		if err := xw.Open(n, id); err != nil {
			return nil, fmt.Errorf("open %s: %w", id, err)
		}
	}
	n.touchP()
	for _, id := range []string{"2", "3"} {
		if err := must(&n.P, env.MsgRemoveConsumer(A, id)); err != nil {
			return nil, err
		}
	}
	// consumer 1 loses its only validator: its credit will be paid with zero eligible voting power
	if err := must(&n.P, env.MsgOptOut(p.Vals[0], "1")); err != nil {
		return nil, err
	}
	// wait until one block before the two stopped consumers are due for deletion
	rt, err := p.K.GetConsumerRemovalTime(n.P.Ctx, "2")
	if err != nil {
		return nil, err
	}
	if pr, _ := xw.Wait(n, rt.Sub(n.now())-3*time.Second, true); pr.Halt() != "" {
		return nil, fmt.Errorf("prefix wait: %s", pr.Halt())
	}
	if ph := p.K.GetConsumerPhase(n.P.Ctx, "2"); ph != providertypes.CONSUMER_PHASE_STOPPED {
		return nil, fmt.Errorf("fixture: consumer 2 is %s before the fault block", ph)
	}
	n.touchP()
	// three consumers due to launch in the fault block: 4 (ok), 5 (nobody opted in: fails by itself), 6 (ok)
	due := n.P.Time().Add(3 * time.Second)
	for i := 4; i <= 6; i++ {
		id := fmt.Sprint(i)
		chain := "flt-" + id
		ps := &providertypes.PowerShapingParameters{}
		if err := must(&n.P, env.MsgCreateConsumer(A, chain, env.ConsumerInit{Spawn: due}.Params(chain), ps)); err != nil {
			return nil, err
		}
		if i != 5 {
			if err := must(&n.P, env.MsgOptIn(p.Vals[i%3], id, nil)); err != nil {
				return nil, err
			}
		}
	}
	// reward credits for consumers 0 and 1 in an allow-listed denom, backed by coins in the rewards pool
	denom := ibcDenom("flt")
	for _, id := range []string{"0", "1"} {
		if err := must(&n.P, &providertypes.MsgUpdateConsumer{Owner: A, ConsumerId: id, AllowlistedRewardDenoms: &providertypes.AllowlistedRewardDenoms{Denoms: []string{denom}}}); err != nil {
			return nil, err
		}
		coins := sdk.NewCoins(sdk.NewInt64Coin(denom, 100))
		if err := p.PApp.BankKeeper.MintCoins(n.P.Ctx, minttypes.ModuleName, coins); err != nil {
			return nil, err
		}
		if err := p.PApp.BankKeeper.SendCoinsFromModuleToModule(n.P.Ctx, minttypes.ModuleName, providertypes.ConsumerRewardsPool, coins); err != nil {
			return nil, err
		}
		if err := p.K.SetConsumerRewardsAllocationByDenom(n.P.Ctx, id, denom, providertypes.ConsumerRewardsAllocation{Rewards: sdk.NewDecCoinsFromCoins(coins...)}); err != nil {
			return nil, err
		}
	}
	// a validator-set change so that this block's EndBlock sends packets to 0 and 1
	if err := must(&n.P, env.MsgDelegate(p.Delegator, p.Vals[0], unit)); err != nil {
		return nil, err
	}
	ff.pre = n.P
	for i := 0; i <= 6; i++ {
		ff.ids = append(ff.ids, fmt.Sprint(i))
	}
	ff.desc = map[string]string{"0": "launched, channel, credit", "1": "launched, channel, credit", "2": "stopped, due for deletion", "3": "stopped, due for deletion",
		"4": "due to launch", "5": "due to launch, nobody opted in", "6": "due to launch"}
	return ff, nil
}

// runBlock runs one full application block boundary (EndBlock of the current block, BeginBlock of the
// next) on a branch of pre, with external call number failAt (armed region only) failing.
func (ff *faultFixture) runBlock(failAt int) (post env.State, calls []string, fail string) {
	return ff.runBlockFrom(ff.pre, failAt, 5*time.Second)
}

func (ff *faultFixture) runBlockFrom(pre env.State, failAt int, dt time.Duration) (post env.State, calls []string, fail string) {
	s := pre.Branch()
	*ff.ctl = faultCtl{Armed: true, Fail: failAt}
	r := s.NextBlock(dt, nil)
	calls = ff.ctl.Calls
	*ff.ctl = faultCtl{}
	return s, calls, r.Halt()
}

func (ff *faultFixture) slices(s env.State) (own map[string]map[string][]byte, global map[string][]byte) {
	own = map[string]map[string][]byte{}
	global = map[string][]byte{}
	iw := &isoWorker{ids: ff.idsAt(s)}
	for _, kv := range env.Dump(s.Ctx, ff.p.PApp, "provider") {
		// light-client ids are allocated from a counter: when one launch fails, later consumers get other
		// ids than in the fault-free run. Compare the presence of a binding, not the id.
		if kv.K[0] == providertypes.ConsumerIdToClientIdKeyPrefix()[0] {
			kv.V = []byte("<client>")
		}
		if kv.K[0] == providertypes.ClientIdToConsumerIdKey("x")[0] {
			kv.K = append([]byte{kv.K[0]}, []byte("<client-of-"+string(kv.V)+">")...)
		}
		os := iw.owners(kv)
		if len(os) == 0 {
			global[string(kv.K)] = kv.V
			continue
		}
		// an entry of a time queue (spawn / removal / infraction-update schedule) lists every consumer due at
		// that time: for each of them only its own membership counts, not who else shares the entry
		pfx := kv.K[0]
		shared := pfx == providertypes.SpawnTimeToConsumerIdsKeyPrefix() || pfx == providertypes.RemovalTimeToConsumerIdsKeyPrefix() || pfx == providertypes.InfractionScheduledTimeToConsumerIdsKeyPrefix()
		for id := range os {
			if own[id] == nil {
				own[id] = map[string][]byte{}
			}
			if shared {
				own[id][string(kv.K)] = []byte("<listed>")
			} else {
				own[id][string(kv.K)] = kv.V
			}
		}
	}
	return own, global
}

func sameSlice(a, b map[string][]byte) bool {
	if len(a) != len(b) {
		return false
	}
	for k, v := range a {
		if w, ok := b[k]; !ok || !bytes.Equal(v, w) {
			return false
		}
	}
	return true
}

// FaultGrid is the C19 (ii) unit: every external call made inside launch / deletion / reward
// allocation / packet sending of one multi-consumer block fails in turn.
func FaultGrid() Grid {
	var calls []string
	var once sync.Once
	var setupErr error
	probe := func() {
		ff, err := buildFaultFixture()
		if err != nil {
			setupErr = err
			return
		}
		_, cs, fail := ff.runBlock(-1)
		if fail != "" {
			setupErr = fmt.Errorf("fault-free block fails: %s", fail)
			return
		}
		calls = cs
	}
	return Grid{
		GName:  "faults",
		Params: map[string]any{"fixture": "7 consumers: 2 sending + credited, 2 due for deletion, 3 due to launch"},
		N: func() int {
			once.Do(probe)
			if setupErr != nil {
				return 1
			}
			return len(calls)
		},
		Setup: func() (any, error) {
			once.Do(probe)
			if setupErr != nil {
				return nil, setupErr
			}
			return buildFaultFixture()
		},
		Eval: func(wa any, i int, st *engine.Stats) (any, int, bool, []V) {
			ff := wa.(*faultFixture)
			okPost, _, fail := ff.runBlock(-1)
			if fail != "" {
				return nil, 1, false, []V{vf("HARNESS", "fault-free-block-fails", "%s", fail)}
			}
			ff.cacheValid = false
			sample, vs := ff.judge(ff.pre, okPost, 5*time.Second, i, st)
			return sample, 1, true, vs
		},
	}
}

// judge runs the block boundary after pre once more with armed external call number i failing and
// compares the outcome, consumer slice by consumer slice, with the fault-free outcome okPost and with
// pre: the failing consumer operation must be rolled back, every other consumer and the provider-wide
// state must be as in the fault-free run, and the block must not fail.
func (ff *faultFixture) judge(pre, okPost env.State, dt time.Duration, i int, st *engine.Stats) (map[string]any, []V) {
	p := ff.p
	post, fcalls, fail := ff.runBlockFrom(pre, i, dt)
	call := "?"
	if i < len(fcalls) {
		call = fcalls[i]
	}
	st.Count("fault:" + call)
	sample := map[string]any{"fault_at_call": i, "call": call}
	var vs []V
	if fail != "" {
		return sample, []V{vf("C19", "block-fails-on-injected-fault:"+call, "external call #%d (%s) failing makes the provider's block processing fail: %s", i, call, fail)}
	}
	// the two reference slicings are the same for every fault point of one block boundary
	if !ff.cacheValid {
		ff.cacheValid = true
		ff.cPreOwn, _ = ff.slices(pre)
		ff.cOkOwn, ff.cOkGlobal = ff.slices(okPost)
		ff.cOkBank = map[string][]env.KV{}
		for _, store := range []string{"bank", "distribution"} {
			ff.cOkBank[store] = env.Dump(okPost.Ctx, p.PApp, store)
		}
	}
	preOwn, okOwn, okGlobal := ff.cPreOwn, ff.cOkOwn, ff.cOkGlobal
	own, global := ff.slices(post)
	var differ []string
	for _, id := range ff.idsAt(okPost) {
		if !sameSlice(own[id], okOwn[id]) {
			differ = append(differ, id)
		}
	}
	op := strings.SplitN(call, "/", 2)[0]
	if len(differ) > 1 {
		vs = append(vs, vf("C19", "fault-affects-several-consumers:"+op, "call #%d (%s) failing changes the outcome for consumers %v", i, call, differ))
	}
	if !sameSlice(global, okGlobal) {
		vs = append(vs, vf("C19", "fault-affects-provider-wide-state:"+op, "call #%d (%s) failing changes provider-wide state", i, call))
	}
	for _, id := range differ {
		ph := p.K.GetConsumerPhase(post.Ctx, id)
		switch op {
		case "LaunchConsumer":
			// rolled back: registered, spawn time cleared, nothing the launch wrote remains
			ip, _ := p.K.GetConsumerInitializationParameters(post.Ctx, id)
			_, hasClient := p.K.GetConsumerClientId(post.Ctx, id)
			_, hasGen := p.K.GetConsumerGenesis(post.Ctx, id)
			set, _ := p.K.GetConsumerValSet(post.Ctx, id)
			_, hasMin := p.K.GetMinimumPowerInTopN(post.Ctx, id)
			if ph != providertypes.CONSUMER_PHASE_REGISTERED || !ip.SpawnTime.IsZero() || hasClient || hasGen || len(set) > 0 || hasMin {
				vs = append(vs, vf("C19", "failed-launch-not-rolled-back", "call #%d (%s) failing: consumer %s is %s, spawn %s, client=%v genesis=%v valset=%d threshold=%v", i, call, id, ph, ip.SpawnTime, hasClient, hasGen, len(set), hasMin))
			}
			st.Count("launch-rolled-back")
		case "AllocateConsumerRewards":
			// nothing of the payout may remain: the consumer's slice equals its slice before the block
			// (modulo what EndBlock legitimately did to it, which the fault-free run shows too)
			diffKeys := 0
			for k, v := range own[id] {
				if w, ok := okOwn[id][k]; !ok || !bytes.Equal(v, w) {
					if pv, ok := preOwn[id][k]; !ok || !bytes.Equal(pv, v) {
						diffKeys++
					}
				}
			}
			if diffKeys > 0 {
				vs = append(vs, vf("C19", "failed-allocation-not-rolled-back", "call #%d (%s) failing: %d store entries of consumer %s are neither as before the block nor as after a successful payout", i, call, diffKeys, id))
			}
			st.Count("allocation-rolled-back")
		case "SendVSCPacketsToChain":
			// (with a block step of a whole unbonding period the consumer stopped by the failed send is
			// already due for deletion in the BeginBlock that follows)
			if ph != providertypes.CONSUMER_PHASE_STOPPED && ph != providertypes.CONSUMER_PHASE_LAUNCHED && !(ph == providertypes.CONSUMER_PHASE_DELETED && dt >= ff.p.Cfg.Unbonding) {
				vs = append(vs, vf("C19", "failed-send-outcome", "call #%d (%s) failing: consumer %s is %s", i, call, id, ph))
			}
			st.Count("send-failure-stops-only-that-consumer")
		case "DeleteConsumerChain":
			st.Count("deletion-with-fault")
		}
	}
	if len(differ) == 0 {
		st.Count("fault-without-effect")
		// a swallowed error must also leave the money where the books say
		for _, store := range []string{"bank", "distribution"} {
			if d := env.DiffKV(ff.cOkBank[store], env.Dump(post.Ctx, p.PApp, store)); len(d) > 0 {
				vs = append(vs, vf("C19", "swallowed-fault-changes-"+store+":"+op, "call #%d (%s) failing changes nothing in the provider store but %d entries of the %s store", i, call, len(d), store))
			}
		}
	} else if op == "AllocateConsumerRewards" {
		// coins must follow the books: if the credit stayed, the pool keeps the coins
		for _, id := range differ {
			_ = id
		}
	}
	return sample, vs
}

// idsAt lists the consumer ids issued so far in state s.
func (ff *faultFixture) idsAt(s env.State) []string {
	next, _ := ff.p.K.GetConsumerId(s.Ctx)
	out := make([]string, 0, next)
	for i := uint64(0); i < next; i++ {
		out = append(out, fmt.Sprint(i))
	}
	return out
}
