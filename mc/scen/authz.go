package scen

import (
	"bytes"
	"fmt"
	"strconv"
	"time"

	sdk "github.com/cosmos/cosmos-sdk/types"

	"verif/mc/engine"
	"verif/mc/env"

	providertypes "github.com/cosmos/interchain-security/v7/x/ccv/provider/types"
)

// Authz is the C14 scenario: the whole provider message matrix x senders, in every state reachable
// by short sequences of those same messages.
type Authz struct{ Variant string }

func (c Authz) Name() string           { return "authz" }
func (c Authz) Params() map[string]any { return map[string]any{"Variant": c.Variant} }

type azNode struct{ S env.State }

type azEvent struct {
	name string
	mk   func(x *azNode) sdk.Msg
}

type azWorker struct {
	p      *env.Provider
	tab    Table
	root   *azNode
	stats  *engine.Stats
	rootVs []V
	names  map[string]string // address -> actor name
	keyX   env.ConsKey
}

type azCons struct {
	owner string
	topN  uint32
	phase providertypes.ConsumerPhase
}

type azSummary struct {
	cons   map[string]azCons
	params []byte
	denoms []string
}

func (w *azWorker) summary(ctx sdk.Context) azSummary {
	k := w.p.K
	s := azSummary{cons: map[string]azCons{}}
	next, _ := k.GetConsumerId(ctx)
	for i := uint64(0); i < next; i++ {
		id := strconv.FormatUint(i, 10)
		c := azCons{phase: k.GetConsumerPhase(ctx, id)}
		c.owner, _ = k.GetConsumerOwnerAddress(ctx, id)
		if ps, err := k.GetConsumerPowerShapingParameters(ctx, id); err == nil {
			c.topN = ps.Top_N
		}
		s.cons[id] = c
	}
	pr := k.GetParams(ctx)
	s.params, _ = pr.Marshal()
	s.denoms = k.GetAllConsumerRewardDenoms(ctx)
	return s
}

func (c Authz) NewWorker(stats *engine.Stats) (engine.Worker, error) {
	p, err := env.NewProvider(env.ProviderCfg{SelfTokens: []int64{3 * unit, 2 * unit, 1 * unit}, Users: 2})
	if err != nil {
		return nil, err
	}
	w := &azWorker{p: p, stats: stats, names: map[string]string{}, keyX: env.NewConsKey("kx")}
	A, B, G := p.Users[0].Addr.String(), p.Users[1].Addr.String(), p.GovAddr
	w.names[A], w.names[B], w.names[G] = "A", "B", "G"
	w.names[p.Vals[0].Oper.Addr.String()] = "oper0"
	w.names[p.Vals[1].Oper.Addr.String()] = "oper1"
	st := p.Root.Branch()
	far := st.Time().Add(365 * 24 * time.Hour)
	must := func(m sdk.Msg) error {
		if r := st.Deliver(m); r.Err != nil {
			return fmt.Errorf("%T: %w", m, r.Err)
		}
		return nil
	}
	mkc := func(owner string, spawn time.Time) error {
		return must(env.MsgCreateConsumer(owner, "az", env.ConsumerInit{Spawn: spawn}.Params("az"), nil))
	}
	// c0 will be deleted: launched now, removed, deleted after U
	steps := []func() error{
		func() error { return mkc(A, st.Time()) }, // c0 -> deleted
		func() error { return must(env.MsgOptIn(p.Vals[0], "0", nil)) },
	}
	for _, f := range steps {
		if err := f(); err != nil {
			return nil, err
		}
	}
	blk := func(dt time.Duration) error {
		r := st.NextBlock(dt, nil)
		if h := r.Halt(); h != "" {
			return fmt.Errorf("prefix block: %s", h)
		}
		return nil
	}
	if err := blk(5 * time.Second); err != nil {
		return nil, err
	}
	if err := must(env.MsgRemoveConsumer(A, "0")); err != nil {
		return nil, err
	}
	if err := blk(p.Cfg.Unbonding); err != nil {
		return nil, err
	}
	top50 := providertypes.PowerShapingParameters{Top_N: 50}
	steps = []func() error{
		func() error { return mkc(A, st.Time()) }, // c1 launched, A
		func() error { return must(env.MsgOptIn(p.Vals[0], "1", nil)) },
		func() error { return must(env.MsgOptIn(p.Vals[1], "1", nil)) },
		func() error { return mkc(A, time.Time{}) }, // c2 registered, A
		func() error { return mkc(G, st.Time()) },   // c3 launched, G, Top-N 50
		func() error {
			return must(&providertypes.MsgUpdateConsumer{Owner: G, ConsumerId: "3", PowerShapingParameters: &top50})
		},
		func() error { return mkc(G, far) },       // c4 initialized, G, opt-in
		func() error { return mkc(A, st.Time()) }, // c5 -> stopped, A
		func() error { return must(env.MsgOptIn(p.Vals[0], "5", nil)) },
		func() error { return mkc(A, far) }, // c6 initialized, transferred A -> B
		func() error {
			return must(&providertypes.MsgUpdateConsumer{Owner: A, ConsumerId: "6", NewOwnerAddress: B})
		},
	}
	for _, f := range steps {
		if err := f(); err != nil {
			return nil, err
		}
	}
	if err := blk(5 * time.Second); err != nil {
		return nil, err
	}
	if err := must(env.MsgRemoveConsumer(A, "5")); err != nil {
		return nil, err
	}
	w.root = &azNode{S: st}
	sum := w.summary(st.Ctx)
	wantPhase := map[string]providertypes.ConsumerPhase{"0": providertypes.CONSUMER_PHASE_DELETED, "1": providertypes.CONSUMER_PHASE_LAUNCHED,
		"2": providertypes.CONSUMER_PHASE_REGISTERED, "3": providertypes.CONSUMER_PHASE_LAUNCHED, "4": providertypes.CONSUMER_PHASE_INITIALIZED,
		"5": providertypes.CONSUMER_PHASE_STOPPED, "6": providertypes.CONSUMER_PHASE_INITIALIZED}
	for id, ph := range wantPhase {
		if sum.cons[id].phase != ph {
			return nil, fmt.Errorf("fixture: consumer %s is %s, wanted %s", id, sum.cons[id].phase, ph)
		}
	}
	w.build()
	return w, nil
}

func (w *azWorker) RootViolations() []V            { return w.rootVs }
func (w *azWorker) Root() engine.Node              { return w.root }
func (w *azWorker) Enabled(n engine.Node) []string { return w.tab.Names() }
func (w *azWorker) Apply(n engine.Node, ev string) (engine.Node, []V) {
	return w.tab.Apply(n, ev)
}
func (w *azWorker) Hash(n engine.Node) [32]byte {
	return n.(*azNode).S.HashStores("provider", "staking")
}

func (w *azWorker) signer(msg sdk.Msg) string {
	signers, _, err := w.p.PApp.AppCodec().GetMsgV1Signers(msg)
	if err != nil || len(signers) != 1 {
		return "?"
	}
	return sdk.AccAddress(signers[0]).String()
}

func (w *azWorker) add(name string, mk func(x *azNode) sdk.Msg) {
	w.tab.Add(name, func(n engine.Node) (engine.Node, []V) {
		x := n.(*azNode)
		msg := mk(x)
		if msg == nil {
			return nil, nil
		}
		pre := w.summary(x.S.Ctx)
		preDump := env.Dump(x.S.Ctx, w.p.PApp, "provider")
		c := &azNode{S: x.S.Branch()}
		r := c.S.Deliver(msg)
		post := w.summary(c.S.Ctx)
		vs := w.judge(name, msg, pre, post, preDump, c, r.Err)
		if r.Err != nil {
			debugOnce("authz:"+fmt.Sprintf("%T", msg), r.Err)
			return nil, vs
		}
		return c, vs
	})
}

func (w *azWorker) judge(name string, msg sdk.Msg, pre, post azSummary, preDump []env.KV, c *azNode, err error) []V {
	var vs []V
	p := w.p
	signer := w.signer(msg)
	accepted := err == nil
	G := p.GovAddr
	who := w.names[signer]
	if !accepted {
		// harness atomicity mirrors baseapp: a failed message's cache is dropped. Verify anyway.
		if d := env.DiffKV(preDump, env.Dump(c.S.Ctx, p.PApp, "provider")); len(d) > 0 {
			vs = append(vs, vf("C14", "rejected-message-changed-state", "%s rejected (%v) but %d provider keys changed", name, err, len(d)))
		}
	}
	switch m := msg.(type) {
	case *providertypes.MsgUpdateConsumer:
		pc, exists := pre.cons[m.ConsumerId]
		if exists && signer != pc.owner {
			w.stats.Count("update:by-non-owner")
			if accepted {
				vs = append(vs, vf("C14", "update-by-non-owner", "%s: accepted although signer %s is not the owner (%s) of consumer %s", name, who, w.names[pc.owner], m.ConsumerId))
			}
		} else if exists && accepted {
			w.stats.Count("update:by-owner-accepted")
		}
		// permissionless users control opt-in consumers only: a Top-N value can only come from governance
		if qc := post.cons[m.ConsumerId]; exists && accepted && qc.topN != 0 && qc.topN != pc.topN && signer != G {
			vs = append(vs, vf("C14", "topn-set-by-non-gov", "%s: signer %s (not the governance authority) gave consumer %s the Top-N value %d", name, who, m.ConsumerId, qc.topN))
		}
	case *providertypes.MsgRemoveConsumer:
		pc, exists := pre.cons[m.ConsumerId]
		if exists && signer != pc.owner {
			w.stats.Count("remove:by-non-owner")
			if accepted {
				vs = append(vs, vf("C14", "remove-by-non-owner", "%s: accepted although signer %s is not the owner (%s)", name, who, w.names[pc.owner]))
			}
		} else if exists && accepted {
			w.stats.Count("remove:by-owner-accepted")
		}
	case *providertypes.MsgUpdateParams:
		if signer != G {
			w.stats.Count("params:by-non-gov")
			if accepted {
				vs = append(vs, vf("C14", "params-by-non-gov", "%s: provider parameters changed by %s", name, who))
			}
		} else if accepted {
			w.stats.Count("params:by-gov-accepted")
		}
	case *providertypes.MsgChangeRewardDenoms:
		if signer != G {
			w.stats.Count("denoms:by-non-gov")
			if accepted {
				vs = append(vs, vf("C14", "denoms-by-non-gov", "%s: reward denoms changed by %s", name, who))
			}
		} else if accepted {
			w.stats.Count("denoms:by-gov-accepted")
		}
	}
	// validator-scoped messages: signer must be the operator, and only that validator's records change
	var valAddr, cid string
	switch m := msg.(type) {
	case *providertypes.MsgOptIn:
		valAddr, cid = m.ProviderAddr, m.ConsumerId
	case *providertypes.MsgOptOut:
		valAddr, cid = m.ProviderAddr, m.ConsumerId
	case *providertypes.MsgAssignConsumerKey:
		valAddr, cid = m.ProviderAddr, m.ConsumerId
	case *providertypes.MsgSetConsumerCommissionRate:
		valAddr, cid = m.ProviderAddr, m.ConsumerId
	}
	if valAddr != "" {
		va, _ := sdk.ValAddressFromBech32(valAddr)
		if sdk.AccAddress(va).String() != signer {
			w.stats.Count("valmsg:by-other")
			if accepted {
				vs = append(vs, vf("C14", "validator-message-by-other-signer", "%s: accepted although signer %s is not the operator of %s", name, who, valAddr))
			}
		} else if accepted {
			w.stats.Count("valmsg:by-operator-accepted")
			var cons []byte
			for _, v := range p.Vals {
				if v.ValAddr().String() == valAddr {
					cons = v.ConsAddr()
				}
			}
			for _, k := range env.DiffKV(preDump, env.Dump(c.S.Ctx, p.PApp, "provider")) {
				ok := bytes.Contains(k, cons)
				if !ok && len(k) > 0 && (k[0] == providertypes.ValidatorsByConsumerAddrKeyPrefix() || k[0] == providertypes.ConsumerAddrsToPruneV2KeyPrefix()) {
					ok = bytes.Contains(k[1:], []byte(cid)) // the key index of this consumer (entries are judged by C05)
				}
				if !ok {
					vs = append(vs, vf("C14", "validator-message-touched-foreign-key", "%s: changed provider store key %x which does not carry validator %s", name, k, valAddr))
				}
			}
		}
	}
	// global: owner changes only by the owner's explicit transfer; params / denoms only by governance
	for id, pc := range pre.cons {
		qc := post.cons[id]
		if qc.owner != pc.owner {
			m, isUpd := msg.(*providertypes.MsgUpdateConsumer)
			if !isUpd || m.ConsumerId != id || signer != pc.owner || m.NewOwnerAddress != qc.owner {
				vs = append(vs, vf("C14", "ownership-changed-illegitimately", "%s: owner of consumer %s went %s -> %s", name, id, w.names[pc.owner], w.names[qc.owner]))
			} else {
				w.stats.Count("ownership-transferred")
			}
		}
	}
	if !bytes.Equal(pre.params, post.params) {
		if _, ok := msg.(*providertypes.MsgUpdateParams); !ok || signer != G {
			vs = append(vs, vf("C14", "params-changed-illegitimately", "%s changed the provider parameters", name))
		}
	}
	if fmt.Sprint(pre.denoms) != fmt.Sprint(post.denoms) {
		if _, ok := msg.(*providertypes.MsgChangeRewardDenoms); !ok || signer != G {
			vs = append(vs, vf("C14", "denoms-changed-illegitimately", "%s changed the global reward denoms", name))
		}
	}
	vs = append(vs, w.stateInvariant(post, name)...)
	if mc, ok := msg.(*providertypes.MsgCreateConsumer); ok && accepted {
		id := strconv.Itoa(len(pre.cons))
		if nc := post.cons[id]; nc.owner != signer || nc.topN != 0 {
			vs = append(vs, vf("C14", "created-consumer-owner", "%s by %s: new consumer %s has owner %s and Top-N %d", name, who, id, w.names[nc.owner], nc.topN))
		}
		_ = mc
	}
	return vs
}

func (w *azWorker) stateInvariant(s azSummary, when string) []V {
	var vs []V
	for id, c := range s.cons {
		if c.topN != 0 {
			w.stats.Count("state-with-topn")
			if c.owner != w.p.GovAddr || c.topN < 50 || c.topN > 100 {
				vs = append(vs, vf("C14", "topn-without-gov-owner", "after %s: consumer %s has Top-N %d and owner %s", when, id, c.topN, w.names[c.owner]))
			}
		}
	}
	return vs
}

func (w *azWorker) build() {
	p := w.p
	A, B, G := p.Users[0].Addr.String(), p.Users[1].Addr.String(), p.GovAddr
	senders := []struct{ n, a string }{{"A", A}, {"B", B}, {"G", G}}
	w.tab.Add("block(5s)", func(n engine.Node) (engine.Node, []V) {
		x := n.(*azNode)
		pre := w.summary(x.S.Ctx)
		c := &azNode{S: x.S.Branch()}
		r := c.S.NextBlock(5*time.Second, nil)
		vs := haltViolation("provider", r)
		if r.Halt() != "" {
			return nil, vs
		}
		post := w.summary(c.S.Ctx)
		for id, pc := range pre.cons {
			if post.cons[id].owner != pc.owner || post.cons[id].topN != pc.topN {
				vs = append(vs, vf("C14", "block-changed-owner-or-topn", "a block changed owner/Top-N of consumer %s", id))
			}
		}
		return c, append(vs, w.stateInvariant(post, "block")...)
	})
	type upd struct {
		n        string
		newOwner string
		topN     *uint32
	}
	u32 := func(v uint32) *uint32 { return &v }
	upds := []upd{{"noop", "", nil}, {"owner=A", A, nil}, {"owner=B", B, nil}, {"owner=G", G, nil},
		{"topN=0", "", u32(0)}, {"topN=50", "", u32(50)}, {"topN=101", "", u32(101)},
		{"owner=G+topN=50", G, u32(50)}, {"owner=A+topN=0", A, u32(0)}, {"owner=B+topN=50", B, u32(50)}}
	for cid := 0; cid <= 6; cid++ {
		id := strconv.Itoa(cid)
		for _, s := range senders {
			for _, u := range upds {
				s, u := s, u
				w.add(fmt.Sprintf("update(c%s,%s)by%s", id, u.n, s.n), func(x *azNode) sdk.Msg {
					m := &providertypes.MsgUpdateConsumer{Owner: s.a, ConsumerId: id, NewOwnerAddress: u.newOwner}
					if u.topN != nil {
						ps, err := p.K.GetConsumerPowerShapingParameters(x.S.Ctx, id)
						if err != nil {
							return nil
						}
						ps.Top_N = *u.topN
						m.PowerShapingParameters = &ps
					}
					return m
				})
			}
			s := s
			w.add(fmt.Sprintf("remove(c%s)by%s", id, s.n), func(*azNode) sdk.Msg { return env.MsgRemoveConsumer(s.a, id) })
		}
	}
	for _, s := range senders {
		s := s
		w.add("create(topN=0)by"+s.n, func(x *azNode) sdk.Msg {
			if n, _ := p.K.GetConsumerId(x.S.Ctx); n >= 8 {
				return nil
			}
			return env.MsgCreateConsumer(s.a, "az", env.ConsumerInit{}.Params("az"), &providertypes.PowerShapingParameters{})
		})
		w.add("create(topN=50)by"+s.n, func(x *azNode) sdk.Msg {
			if n, _ := p.K.GetConsumerId(x.S.Ctx); n >= 8 {
				return nil
			}
			return env.MsgCreateConsumer(s.a, "az", env.ConsumerInit{}.Params("az"), &providertypes.PowerShapingParameters{Top_N: 50})
		})
		w.add("params(epoch=7)by"+s.n, func(x *azNode) sdk.Msg {
			pr := p.K.GetParams(x.S.Ctx)
			if pr.BlocksPerEpoch == 7 {
				return nil
			}
			pr.BlocksPerEpoch = 7
			return &providertypes.MsgUpdateParams{Authority: s.a, Params: pr}
		})
		w.add("denoms(+ibc/X)by"+s.n, func(x *azNode) sdk.Msg {
			if len(p.K.GetAllConsumerRewardDenoms(x.S.Ctx)) > 0 {
				return nil
			}
			return &providertypes.MsgChangeRewardDenoms{Authority: s.a, DenomsToAdd: []string{"ibc/27394FB092D2ECCD56123C74F36E4C1F926001CEADA9CA97EA622B25F41E5EB2"}}
		})
	}
	// validator-scoped messages about v0, signed by oper0 (legitimate), oper1 and A
	vsenders := []struct{ n, a string }{{"oper0", p.Vals[0].Oper.Addr.String()}, {"oper1", p.Vals[1].Oper.Addr.String()}, {"A", A}}
	v0 := p.Vals[0]
	for _, id := range []string{"1", "2", "3", "5"} {
		for _, s := range vsenders {
			id, s := id, s
			w.add(fmt.Sprintf("optin(v0,c%s)by%s", id, s.n), func(*azNode) sdk.Msg {
				return &providertypes.MsgOptIn{ProviderAddr: v0.ValAddr().String(), ConsumerId: id, Signer: s.a}
			})
			w.add(fmt.Sprintf("optout(v0,c%s)by%s", id, s.n), func(*azNode) sdk.Msg {
				return &providertypes.MsgOptOut{ProviderAddr: v0.ValAddr().String(), ConsumerId: id, Signer: s.a}
			})
			w.add(fmt.Sprintf("assign(v0,c%s,kx)by%s", id, s.n), func(*azNode) sdk.Msg {
				return &providertypes.MsgAssignConsumerKey{ProviderAddr: v0.ValAddr().String(), ConsumerId: id, Signer: s.a, ConsumerKey: w.keyX.JSON()}
			})
			w.add(fmt.Sprintf("commission(v0,c%s)by%s", id, s.n), func(*azNode) sdk.Msg {
				m := env.MsgSetCommission(v0, id, "0.5").(*providertypes.MsgSetConsumerCommissionRate)
				m.Signer = s.a
				return m
			})
		}
	}
}

func (w *azWorker) ProviderForTier2() *env.Provider { return w.p }
