#!/bin/sh
# Builds the model checker against the current /repo tree (warms the Go build cache).
set -e
cd /verif
. ./goenv.sh
cp /repo/go.sum mc/go.sum
mkdir -p bin evidence replays
(cd mc && go build -o /verif/bin/mc ./cmd/mc)
/verif/bin/mc list >/dev/null
echo "setup ok"
