package scen

import (
	"encoding/json"
	"time"

	"verif/mc/engine"
)

func init() {
	registerScenario("evidence", func(bz json.RawMessage) (engine.Scenario, error) {
		var c Evidence
		if err := json.Unmarshal(bz, &c); err != nil {
			return nil, err
		}
		return c, nil
	})
	register("C07", func(tier string) CheckSpec {
		depth, budget := 4, 280*time.Second
		if tier == "thorough" {
			depth, budget = 5, 20*time.Minute
		}
		return CheckSpec{Level: "model_checking", Rule: searchRule + "; the alphabet holds every evidence object obtained from a valid one by one mutation, for every signer key state and both consumers sharing a chain id, so each is submitted in every reached state (including after other submissions and after the pruning deadline)", Assumptions: append([]string{
			"votes and headers are really signed with harness-generated ed25519 keys (provider keys, assigned consumer keys); the IBC light client's own misbehaviour verification is the real ibc-go code against the client the provider created at launch",
			"stake amounts are multiples of the power reduction so that expected slash amounts are exact",
		}, commonAssumptions...), Budget: budget,
			Units: []Unit{Search{Sc: Evidence{Variant: "base"}, Depth: depth}},
			MustSee: []string{"dv:valid=true,punishable=true,accepted=true", "dv:valid=false,punishable=false,accepted=false", "dv:valid=true,punishable=false,accepted=false",
				"dv:unbonding-slashed", "dv:redelegation-slashed", "mb:equivocation(all):want=3,accepted=true", "mb:amnesia:want=0,accepted=false", "dv:for-stopped-consumer"}}
	})
}
