#!/bin/bash
# confirms every seeded change under /tmp/seeded in parallel (per property sequentially, properties in parallel)
cd /tmp/seeded
ls -d C*/ | tr -d / | xargs -P 6 -I{} bash -c 'for v in a b; do [ -f /tmp/seeded/{}/$v/patch.diff ] && /verif/tools/confirm_seed.sh {} $v full > /tmp/seeded/{}/$v/confirm.out 2>&1; done'
echo ALL-DONE
