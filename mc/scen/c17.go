package scen

import (
	"encoding/json"
	"time"

	"verif/mc/engine"
)

func init() {
	registerScenario("handshake", func(bz json.RawMessage) (engine.Scenario, error) {
		var c Handshake
		if err := json.Unmarshal(bz, &c); err != nil {
			return nil, err
		}
		return c, nil
	})
	register("C17", func(tier string) CheckSpec {
		depth, budget := 4, 280*time.Second
		if tier == "thorough" {
			depth, budget = 5, 20*time.Minute
		}
		return CheckSpec{Level: "model_checking", Rule: searchRule + "; the alphabet contains the full grid of handshake parameters (7 hop choices x ordering x port x counterparty port x version on the provider, 3 x 2 x 2 x 2 on the consumer), so every combination is attempted in every reached state", Assumptions: append([]string{
			"IBC core's own channel-handshake checks (proofs, connection state) are not exercised: the application callbacks are called the way core calls them and the channel ends are written by the shim on acceptance",
			"the late-open and vscrelay units of C01 additionally run the well-formed handshake end to end on both chains",
		}, commonAssumptions...), Budget: budget,
			Units: []Unit{Search{Sc: Handshake{Variant: "base"}, Depth: depth}, Search{Sc: VSCRelay{Variant: "late", Epoch: 1, Delay: 1, Two: true}, Depth: 3}},
			MustSee: []string{"try:want=true,accepted=true", "try:want=false,accepted=false", "confirm:want=true,accepted=true", "confirm:want=false,accepted=false",
				"consumer-init:want=true,accepted=true", "consumer-init:want=false,accepted=false", "provider-init:accepted=false"}}
	})
}
