package scen

import (
	"encoding/json"
	"time"

	"verif/mc/engine"
)

func init() {
	registerScenario("infraction", func(bz json.RawMessage) (engine.Scenario, error) {
		var c Infraction
		if err := json.Unmarshal(bz, &c); err != nil {
			return nil, err
		}
		return c, nil
	})
	register("C20", func(tier string) CheckSpec {
		depth, budget := 4, 240*time.Second
		if tier == "thorough" {
			depth, budget = 6, 20*time.Minute
		}
		return CheckSpec{Level: "model_checking", Rule: searchRule, Assumptions: append([]string{
			"downtime handling is driven through the keeper's HandleSlashPacket (the step after packet validation); the full packet path is covered by the C08 scenario",
		}, commonAssumptions...), Budget: budget,
			Units: []Unit{Search{Sc: Infraction{Variant: "base"}, Depth: depth}, Search{Sc: Infraction{Variant: "staggered"}, Depth: depth}, Search{Sc: Infraction{Variant: "bulk"}, Depth: 3}},
			MustSee: []string{"update:prelaunch", "update:cancel", "update:replace-pending", "update:new-pending", "pending-applied", "pending-not-due",
				"deleted-with-pending", "more-than-200-due", "downtime-handled:fraction=0.02", "downtime-handled:fraction=0.03"}}
	})
}
