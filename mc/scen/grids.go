package scen

import (
	"fmt"
	"math/big"
	"sort"
	"sync"
	"time"

	sdk "github.com/cosmos/cosmos-sdk/types"
	stakingtypes "github.com/cosmos/cosmos-sdk/x/staking/types"

	"verif/mc/engine"
	"verif/mc/env"

	providerkeeper "github.com/cosmos/interchain-security/v7/x/ccv/provider/keeper"
	providertypes "github.com/cosmos/interchain-security/v7/x/ccv/provider/types"
)

// Grid is an exhaustive input-grid unit: Cases enumerates a finite input space completely and
// evaluates the real function on every point.
type Grid struct {
	GName  string
	Params map[string]any
	// Eval is run by every worker on its share of the case indices [0,N).
	N     func() int
	Setup func() (any, error) // per worker
	Eval  func(w any, i int, st *engine.Stats) (sample any, evals int, nontrivial bool, vs []V)
}

func (g Grid) Name() string { return g.GName }

func (g Grid) Run(rc RunCtx) UnitResult {
	start := time.Now()
	res := UnitResult{Name: g.GName, Params: g.Params, Kind: "exhaustive grid"}
	n := g.N()
	stats := engine.NewStats()
	var mu sync.Mutex
	found := map[string]engine.Found{}
	var wg sync.WaitGroup
	var evals, nontriv int64
	timedOut := false
	workers := rc.Workers
	if workers > n {
		workers = n
	}
	for wi := 0; wi < workers; wi++ {
		wg.Add(1)
		go func(wi int) {
			defer wg.Done()
			w, err := g.Setup()
			if err != nil {
				mu.Lock()
				res.Err = err
				mu.Unlock()
				return
			}
			var le, ln int64
			var samples []any
			iter := 0
			for i := wi; i < n; i += workers {
				iter++
				if iter%8 == 0 && !rc.Deadline.IsZero() && time.Now().After(rc.Deadline) {
					mu.Lock()
					timedOut = true
					mu.Unlock()
					break
				}
				s, ne, nt, vs := g.Eval(w, i, stats)
				le += int64(ne)
				if nt {
					ln++
				}
				if len(samples) < 2 && s != nil && (i%97 == 0 || len(vs) > 0) {
					samples = append(samples, s)
				}
				if len(vs) > 0 {
					mu.Lock()
					for _, v := range vs {
						k := v.Property + "|" + v.Key
						if _, ok := found[k]; !ok {
							found[k] = engine.Found{Violation: v, Scenario: g.GName, Params: g.Params, Trace: []string{fmt.Sprintf("case#%d", i)}}
						}
					}
					mu.Unlock()
				}
			}
			mu.Lock()
			evals += le
			nontriv += ln
			if len(res.Samples) < 6 {
				res.Samples = append(res.Samples, samples...)
			}
			mu.Unlock()
		}(wi)
	}
	wg.Wait()
	res.Evaluations = evals
	res.Nontrivial = nontriv
	res.Exhaustive = !timedOut && res.Err == nil
	res.Depth, res.DepthTarget = 1, 1
	for _, f := range found {
		res.Found = append(res.Found, f)
	}
	res.Outcomes = stats.Snapshot()
	res.Wall = time.Since(start)
	return res
}

// multisets enumerates all non-increasing sequences of length 1..maxLen over the alphabet.
func multisets(alphabet []int64, maxLen int) [][]int64 {
	a := append([]int64{}, alphabet...)
	sort.Slice(a, func(i, j int) bool { return a[i] > a[j] })
	var out [][]int64
	var rec func(cur []int64, from int)
	rec = func(cur []int64, from int) {
		if len(cur) > 0 {
			out = append(out, append([]int64{}, cur...))
		}
		if len(cur) == maxLen {
			return
		}
		for i := from; i < len(a); i++ {
			rec(append(cur, a[i]), i)
		}
	}
	rec(nil, 0)
	return out
}

type gridWorker struct {
	p    *env.Provider
	oper []sdk.ValAddress
	vals []stakingtypes.Validator
}

func newGridWorker(n int) (*gridWorker, error) {
	p, err := env.NewProvider(env.ProviderCfg{SelfTokens: []int64{unit}})
	if err != nil {
		return nil, err
	}
	g := &gridWorker{p: p}
	for i := 0; i < n; i++ {
		a := env.NewAcct(fmt.Sprintf("gridval%d", i))
		g.oper = append(g.oper, sdk.ValAddress(a.Addr))
		g.vals = append(g.vals, stakingtypes.Validator{OperatorAddress: sdk.ValAddress(a.Addr).String()})
	}
	return g, nil
}

// TopNGrid: ComputeMinPowerInTopN over all power multisets x all N in [50,100], through the real
// keeper reading last validator powers from a real staking store.
func TopNGrid(alphabet []int64, maxLen int) Grid {
	ms := multisets(alphabet, maxLen)
	return Grid{
		GName:  "topn-fn",
		Params: map[string]any{"alphabet": fmt.Sprint(alphabet), "maxLen": maxLen},
		N:      func() int { return len(ms) },
		Setup:  func() (any, error) { return newGridWorker(maxLen) },
		Eval: func(wa any, i int, st *engine.Stats) (any, int, bool, []V) {
			w := wa.(*gridWorker)
			powers := ms[i]
			s := w.p.Root.Branch()
			for j, pw := range powers {
				if err := w.p.PApp.StakingKeeper.SetLastValidatorPower(s.Ctx, w.oper[j], pw); err != nil {
					return nil, 0, false, []V{vf("HARNESS", "set-last-power", "%v", err)}
				}
			}
			var vs []V
			distinct := map[int64]bool{}
			for n := uint32(50); n <= 100; n++ {
				got, err := w.p.K.ComputeMinPowerInTopN(s.Ctx, w.vals[:len(powers)], n)
				want := refMinPowerLargest(powers, n)
				if err != nil || got != want {
					vs = append(vs, vf("C03", "topn-fn", "ComputeMinPowerInTopN(powers=%v, N=%d) = %d (err %v), reference %d", powers, n, got, err, want))
				}
				distinct[got] = true
			}
			st.Count(fmt.Sprintf("distinct-thresholds-per-vector:%d", len(distinct)))
			return map[string]any{"powers": powers, "N": "50..100"}, 51, len(distinct) > 1, vs
		},
	}
}

// refMinPowerLargest: the largest m among the powers such that validators with power >= m hold
// at least N% of the total (brute force over candidate values, exact integers).
func refMinPowerLargest(powers []int64, n uint32) int64 {
	var total int64
	for _, p := range powers {
		total += p
	}
	best := int64(0)
	for _, m := range powers {
		var s int64
		for _, p := range powers {
			if p >= m {
				s += p
			}
		}
		if 100*s >= int64(n)*total && m > best {
			best = m
		}
	}
	return best
}

// PowerShapeGrid: validator-set cap, priority list and power cap over a grid of validator
// multisets x caps x percentages x priority subsets, through the real keeper functions composed
// as ComputeNextValidators composes them.
func PowerShapeGrid(alphabet []int64, maxLen int, label string) Grid {
	ms := multisets(alphabet, maxLen)
	return Grid{
		GName:  "powershape",
		Params: map[string]any{"alphabet": fmt.Sprint(alphabet), "maxLen": maxLen, "label": label},
		N:      func() int { return len(ms) },
		Setup:  func() (any, error) { return newGridWorker(maxLen) },
		Eval: func(wa any, i int, st *engine.Stats) (any, int, bool, []V) {
			w := wa.(*gridWorker)
			powers := ms[i]
			n := len(powers)
			k := w.p.K
			mk := func() []providertypes.ConsensusValidator {
				out := make([]providertypes.ConsensusValidator, n)
				for j, pw := range powers {
					// present them in a scrambled (not sorted) order
					jj := (j*7 + 3) % n
					_ = jj
					out[j] = providertypes.ConsensusValidator{ProviderConsAddr: sdk.ConsAddress(w.oper[j]), Power: pw}
				}
				// rotate so that input is not already sorted
				r := i % n
				return append(out[r:], out[:r]...)
			}
			var vs []V
			nontrivial := false
			evals := 0
			// (a) power cap alone, all percentages
			for pct := uint32(1); pct <= 100; pct++ {
				in := mk()
				out := providerkeeper.NoMoreThanPercentOfTheSum(append([]providertypes.ConsensusValidator{}, in...), pct)
				evals++
				if v := judgePowerCap(powers, in, out, pct, st); v != nil {
					vs = append(vs, *v)
				}
			}
			// (b) cap k and priority subsets (all 2^n), composed with a power cap of 34%
			s := w.p.Root.Branch()
			cid := "0"
			for mask := 0; mask < 1<<n; mask++ {
				var prio []string
				isPrio := map[string]bool{}
				for j := 0; j < n; j++ {
					if mask&(1<<j) != 0 {
						a := sdk.ConsAddress(w.oper[j]).String()
						prio = append(prio, a)
						isPrio[string(w.oper[j])] = true
					}
				}
				k.UpdatePrioritylist(s.Ctx, cid, prio)
				for cap := 0; cap <= n+1; cap++ {
					in := mk()
					pr, np := k.PartitionBasedOnPriorityList(s.Ctx, cid, in)
					ps := providertypes.PowerShapingParameters{ValidatorSetCap: uint32(cap)}
					out := k.CapValidatorSet(s.Ctx, ps, append(pr, np...))
					evals++
					if v := judgeSetCap(in, out, cap, isPrio, st); v != nil {
						vs = append(vs, *v)
					}
					if cap > 0 && cap < n && mask != 0 {
						nontrivial = true
					}
				}
			}
			return map[string]any{"powers": powers, "caps": fmt.Sprintf("0..%d", n+1), "percent": "1..100", "priority_subsets": 1 << n}, evals, nontrivial, vs
		},
	}
}

func judgePowerCap(powers []int64, in, out []providertypes.ConsensusValidator, pct uint32, st *engine.Stats) *V {
	var total int64
	for _, p := range powers {
		total += p
	}
	n := int64(len(powers))
	// exact arithmetic (totals near 2^60 overflow int64 when multiplied by the percentage)
	bmax := new(big.Int).Div(new(big.Int).Mul(big.NewInt(total), big.NewInt(int64(pct))), big.NewInt(100))
	if bmax.Sign() == 0 {
		bmax = big.NewInt(1)
	}
	max := bmax.Int64()
	achievable := new(big.Int).Mul(big.NewInt(n), bmax).Cmp(big.NewInt(total)) >= 0
	if len(out) != len(in) {
		v := vf("C04", "powercap-size", "power cap %d%% over %v changed the number of validators: %d -> %d", pct, powers, len(in), len(out))
		return &v
	}
	inBy := map[string]int64{}
	for _, v := range in {
		inBy[string(v.ProviderConsAddr)] = v.Power
	}
	outBy := map[string]int64{}
	var sumOut int64
	for _, v := range out {
		if _, ok := inBy[string(v.ProviderConsAddr)]; !ok {
			vv := vf("C04", "powercap-identity", "power cap %d%% over %v: unknown validator in result", pct, powers)
			return &vv
		}
		outBy[string(v.ProviderConsAddr)] = v.Power
		sumOut += v.Power
	}
	if len(outBy) != len(inBy) {
		vv := vf("C04", "powercap-identity", "power cap %d%% over %v: validators lost or duplicated", pct, powers)
		return &vv
	}
	if achievable {
		st.Count("powercap:achievable")
		for a, o := range outBy {
			if o > max {
				vv := vf("C04", "powercap-exceeds", "power cap %d%% over %v (sum %d, max %d): a validator has %d; result %v", pct, powers, total, max, o, powersOf(out))
				return &vv
			}
			if o < 1 {
				vv := vf("C04", "powercap-zero", "power cap %d%% over %v: a validator is reduced to %d", pct, powers, o)
				return &vv
			}
			for b, o2 := range outBy {
				if inBy[a] > inBy[b] && o < o2 {
					vv := vf("C04", "powercap-order", "power cap %d%% over %v: relative order not kept (in %d>%d, out %d<%d); result %v", pct, powers, inBy[a], inBy[b], o, o2, powersOf(out))
					return &vv
				}
			}
		}
		if sumOut != total {
			vv := vf("C04", "powercap-sum", "power cap %d%% over %v (max %d): total changed %d -> %d; result %v", pct, powers, max, total, sumOut, powersOf(out))
			return &vv
		}
		changed := false
		for a, o := range outBy {
			if o != inBy[a] {
				changed = true
			}
		}
		if changed {
			st.Count("powercap:achievable-and-redistributed")
		}
	} else {
		st.Count("powercap:not-achievable")
		first := out[0].Power
		for _, v := range out {
			if v.Power != first {
				vv := vf("C04", "powercap-unachievable-unequal", "power cap %d%% over %v is not achievable (n=%d, max=%d, total %d) but powers are not all equal: %v", pct, powers, n, max, total, powersOf(out))
				return &vv
			}
		}
	}
	return nil
}

func powersOf(vs []providertypes.ConsensusValidator) []int64 {
	var o []int64
	for _, v := range vs {
		o = append(o, v.Power)
	}
	return o
}

// judgeSetCap: |out| <= k (k>0), out ⊆ in with unchanged powers, and no excluded validator strictly
// outranks an included one under (priority-listed first, then power descending).
func judgeSetCap(in, out []providertypes.ConsensusValidator, cap int, isPrio map[string]bool, st *engine.Stats) *V {
	inBy := map[string]int64{}
	for _, v := range in {
		inBy[string(v.ProviderConsAddr)] = v.Power
	}
	included := map[string]bool{}
	for _, v := range out {
		p, ok := inBy[string(v.ProviderConsAddr)]
		if !ok || p != v.Power || included[string(v.ProviderConsAddr)] {
			vv := vf("C04", "setcap-identity", "validator-set cap %d: result is not a sub-multiset of the input (in %v, out %v)", cap, powersOf(in), powersOf(out))
			return &vv
		}
		included[string(v.ProviderConsAddr)] = true
	}
	want := len(in)
	if cap > 0 && cap < want {
		want = cap
	}
	if len(out) != want {
		vv := vf("C04", "setcap-size", "validator-set cap %d over %d validators gives %d validators, expected %d", cap, len(in), len(out), want)
		return &vv
	}
	rank := func(a string) (int, int64) {
		if isPrio[a] {
			return 1, inBy[a]
		}
		return 0, inBy[a]
	}
	for a := range inBy {
		if included[a] {
			continue
		}
		pa, wa := rank(a)
		for b := range included {
			pb, wb := rank(b)
			if pa > pb || (pa == pb && wa > wb) {
				vv := vf("C04", "setcap-outranked", "validator-set cap %d: excluded validator (prio=%d,power=%d) strictly outranks included (prio=%d,power=%d); in %v", cap, pa, wa, pb, wb, powersOf(in))
				return &vv
			}
		}
	}
	if len(out) < len(in) {
		st.Count("setcap:truncated")
		for a := range inBy {
			if !included[a] && isPrio[a] {
				st.Count("setcap:priority-validator-excluded")
			}
			if included[a] && isPrio[a] {
				st.Count("setcap:priority-validator-included-over-stronger")
			}
		}
	}
	return nil
}
