package env

import (
	"bytes"
	"fmt"
	"math/rand"
	"time"

	"cosmossdk.io/log"

	dbm "github.com/cosmos/cosmos-db"
	"github.com/cosmos/cosmos-sdk/baseapp"
	cryptotypes "github.com/cosmos/cosmos-sdk/crypto/types"
	simtestutil "github.com/cosmos/cosmos-sdk/testutil/sims"
	sdk "github.com/cosmos/cosmos-sdk/types"

	abci "github.com/cometbft/cometbft/abci/types"
	cmttypes "github.com/cometbft/cometbft/types"

	appProvider "github.com/cosmos/interchain-security/v7/app/provider"
	providertypes "github.com/cosmos/interchain-security/v7/x/ccv/provider/types"
	ccv "github.com/cosmos/interchain-security/v7/x/ccv/types"
)

// Tier2Stores are compared byte for byte between the branching driver and the full ABCI stack.
var Tier2Stores = []string{"provider", "staking", "slashing"}

// ReplayThroughABCI executes a recorded linear execution (fixture prefix + trace) on a freshly built
// provider application through the real ABCI entry points — InitChain, FinalizeBlock with signed
// transactions going through the ante handlers, Commit (IAVL, app hash) — and compares, after every
// block, the committed content of the provider, staking and slashing stores and the returned
// validator updates with what the branching driver produced at the same point.
// Masked: staking HistoricalInfo (contains header hashes) and the consensus-state root /
// next-validators hash inside recorded consumer genesis states (taken from the header).
func ReplayThroughABCI(p *Provider, rec *Recorder) (blocks int, err error) {
	if rec.Tainted != "" {
		return 0, fmt.Errorf("not replayable: %s", rec.Tainted)
	}
	app := appProvider.New(log.NewNopLogger(), dbm.NewMemDB(), nil, true, simtestutil.EmptyAppOptions{}, baseapp.SetChainID(p.Cfg.ChainID))
	cp := cmttypes.DefaultConsensusParams().ToProto()
	res, err := app.InitChain(&abci.RequestInitChain{ChainId: p.Cfg.ChainID, Time: GenesisTime, InitialHeight: 1, ConsensusParams: &cp, AppStateBytes: p.GenesisBytes})
	if err != nil {
		return 0, fmt.Errorf("InitChain: %w", err)
	}
	if a, b := fmt.Sprint(sortUpdates(res.Validators)), fmt.Sprint(sortUpdates(p.InitVals)); a != b {
		return 0, fmt.Errorf("InitChain validators differ: ABCI %s, driver %s", a, b)
	}
	accNum := map[string]uint64{}
	seq := map[string]uint64{}
	priv := map[string]cryptotypes.PrivKey{}
	for i, a := range p.Accts {
		accNum[a.Addr.String()] = uint64(i)
		priv[a.Addr.String()] = a.Priv
	}
	txCfg := app.TxConfig()
	rnd := rand.New(rand.NewSource(1))
	height := int64(1)
	blockTime := GenesisTime.Add(5 * time.Second)
	var txs [][]byte
	var expectRejected []bool
	for _, op := range rec.Ops {
		if !op.Block {
			signers, _, e := app.AppCodec().GetMsgV1Signers(op.Msg)
			if e != nil || len(signers) != 1 {
				return blocks, fmt.Errorf("not replayable: cannot determine the signer of %T", op.Msg)
			}
			addr := sdk.AccAddress(signers[0]).String()
			pk, ok := priv[addr]
			if !ok {
				return blocks, fmt.Errorf("not replayable: %T is signed by %s (module account), which only a governance proposal can do", op.Msg, addr)
			}
			tx, e := simtestutil.GenSignedMockTx(rnd, txCfg, []sdk.Msg{op.Msg}, sdk.NewCoins(), 50_000_000, p.Cfg.ChainID, []uint64{accNum[addr]}, []uint64{seq[addr]}, pk)
			if e != nil {
				return blocks, fmt.Errorf("signing %T: %w", op.Msg, e)
			}
			bz, e := txCfg.TxEncoder()(tx)
			if e != nil {
				return blocks, e
			}
			seq[addr]++
			txs = append(txs, bz)
			expectRejected = append(expectRejected, op.Rejected)
			continue
		}
		if op.Height != height {
			return blocks, fmt.Errorf("recorded block height %d, ABCI replay is at %d", op.Height, height)
		}
		fr, e := app.FinalizeBlock(&abci.RequestFinalizeBlock{Height: height, Time: blockTime, Txs: txs})
		if e != nil {
			return blocks, fmt.Errorf("FinalizeBlock(%d): %w", height, e)
		}
		for i, r := range fr.TxResults {
			if (r.Code != 0) != expectRejected[i] {
				return blocks, fmt.Errorf("block %d tx %d: ABCI code %d (%s), the driver rejected=%v", height, i, r.Code, r.Log, expectRejected[i])
			}
		}
		if a, b := fmt.Sprint(sortUpdates(fr.ValidatorUpdates)), fmt.Sprint(sortUpdates(op.ValUpdates)); a != b {
			return blocks, fmt.Errorf("block %d: validator updates differ: ABCI %s, driver %s", height, a, b)
		}
		if _, e := app.Commit(); e != nil {
			return blocks, fmt.Errorf("Commit(%d): %w", height, e)
		}
		ctx := app.NewUncachedContext(false, WithHeader(sdk.Context{}, p.Cfg.ChainID, height, blockTime).BlockHeader())
		for _, st := range Tier2Stores {
			if d := diffMasked(st, op.Dumps[st], Dump(ctx, app, st)); d != "" {
				return blocks, fmt.Errorf("block %d: store %q differs between the driver and the ABCI stack: %s", height, st, d)
			}
		}
		blocks++
		height++
		blockTime = op.NextTime
		txs, expectRejected = nil, nil
	}
	return blocks, nil
}

func sortUpdates(u []abci.ValidatorUpdate) []string {
	var out []string
	for _, x := range u {
		out = append(out, fmt.Sprintf("%s:%d", short(PubKeyID(&x.PubKey)), x.Power))
	}
	for i := range out {
		for j := i + 1; j < len(out); j++ {
			if out[j] < out[i] {
				out[i], out[j] = out[j], out[i]
			}
		}
	}
	return out
}

func maskKV(store string, kv KV) (KV, bool) {
	if store == "staking" && len(kv.K) > 0 && kv.K[0] == 0x50 { // HistoricalInfoKey: header hashes
		return kv, false
	}
	if store == "provider" && len(kv.K) > 0 && kv.K[0] == providertypes.ConsumerGenesisKey("x")[0] {
		var g ccv.ConsumerGenesisState
		if err := g.Unmarshal(kv.V); err == nil && g.Provider.ConsensusState != nil {
			g.Provider.ConsensusState.Root.Hash = nil
			g.Provider.ConsensusState.NextValidatorsHash = nil
			bz, _ := g.Marshal()
			return KV{K: kv.K, V: bz}, true
		}
	}
	return kv, true
}

func diffMasked(store string, a, b []KV) string {
	var ma, mb []KV
	for _, kv := range a {
		if m, keep := maskKV(store, kv); keep {
			ma = append(ma, m)
		}
	}
	for _, kv := range b {
		if m, keep := maskKV(store, kv); keep {
			mb = append(mb, m)
		}
	}
	d := DiffKV(ma, mb)
	if len(d) == 0 {
		return ""
	}
	k := d[0]
	var va, vb []byte
	for _, kv := range ma {
		if bytes.Equal(kv.K, k) {
			va = kv.V
		}
	}
	for _, kv := range mb {
		if bytes.Equal(kv.K, k) {
			vb = kv.V
		}
	}
	return fmt.Sprintf("%d keys differ; first key %x: driver %x, ABCI %x", len(d), k, va, vb)
}
