package env

import (
	"crypto/sha256"
	"fmt"
	"sort"
	"strings"
	"time"

	sdk "github.com/cosmos/cosmos-sdk/types"
	clienttypes "github.com/cosmos/ibc-go/v10/modules/core/02-client/types"
	conntypes "github.com/cosmos/ibc-go/v10/modules/core/03-connection/types"
	channeltypes "github.com/cosmos/ibc-go/v10/modules/core/04-channel/types"
	commitmenttypes "github.com/cosmos/ibc-go/v10/modules/core/23-commitment/types"
	host "github.com/cosmos/ibc-go/v10/modules/core/24-host"
	ibcexported "github.com/cosmos/ibc-go/v10/modules/core/exported"
	ibckeeper "github.com/cosmos/ibc-go/v10/modules/core/keeper"
	ibctm "github.com/cosmos/ibc-go/v10/modules/light-clients/07-tendermint"
	ibctesting "github.com/cosmos/ibc-go/v10/testing"

	abci "github.com/cometbft/cometbft/abci/types"
)

// This file is the harness's stand-in for IBC core's proof verification and ordered-channel
// bookkeeping plus the relayer. Everything the ICS modules themselves call (SendPacket,
// CreateClient, GetClientStatus, ChanCloseInit, channel / connection getters) is the real ibc-go
// keeper; what is emulated is what core does *around* the application callbacks.

// Relayer is the account that signs IBC messages (a funded genesis account on every chain).
var Relayer = NewAcct("relayer")
var relayerAddr = Relayer.Addr

// Packet in flight.
type Packet struct {
	P          channeltypes.Packet
	SentHeight int64 // sender's block height whose EndBlock / tx sent it
}

// Ack written by a receiver, not yet relayed to the sender.
type Ack struct {
	P            channeltypes.Packet
	Bytes        []byte
	WrittenAt    int64 // receiver height
	ReceiverSide string
}

// Dir is one direction of one channel: a FIFO of packets and a FIFO of acknowledgements going back.
type Dir struct {
	Packets []Packet
	Acks    []Ack
}

func (d Dir) clone() Dir {
	return Dir{Packets: append([]Packet{}, d.Packets...), Acks: append([]Ack{}, d.Acks...)}
}

// Link is the harness's knowledge about one provider<->consumer connection and its CCV channel.
type Link struct {
	PClient, CClient string // client ids: on the provider (of the consumer), on the consumer (of the provider)
	PConn, CConn     string
	PChan, CChan     string
	Stage            int // 0 none, 1 INIT (consumer), 2 TRY (provider), 3 ACK (consumer), 4 CONFIRM (provider)
	P2C, C2P         Dir
	// transfer channel (rewards)
	XPChan, XCChan string
	XStage         int
	XC2P           Dir
}

func (l Link) Clone() Link {
	o := l
	o.P2C, o.C2P, o.XC2P = l.P2C.clone(), l.C2P.clone(), l.XC2P.clone()
	return o
}

func (l Link) Digest() string {
	var b strings.Builder
	fmt.Fprintf(&b, "%s/%s/%s/%s/%s/%s/%d/%s/%s/%d|", l.PClient, l.CClient, l.PConn, l.CConn, l.PChan, l.CChan, l.Stage, l.XPChan, l.XCChan, l.XStage)
	for _, d := range []Dir{l.P2C, l.C2P, l.XC2P} {
		for _, p := range d.Packets {
			fmt.Fprintf(&b, "p%d@%d:%x,", p.P.Sequence, p.SentHeight, sha256.Sum256(p.P.Data))
		}
		b.WriteString("/")
		for _, a := range d.Acks {
			fmt.Fprintf(&b, "a%d@%d:%x,", a.P.Sequence, a.WrittenAt, a.Bytes)
		}
		b.WriteString("|")
	}
	return b.String()
}

func route(k *ibckeeper.Keeper, port string) (cb interface {
	OnRecvPacket(ctx sdk.Context, channelVersion string, packet channeltypes.Packet, relayer sdk.AccAddress) ibcexported.Acknowledgement
	OnAcknowledgementPacket(ctx sdk.Context, channelVersion string, packet channeltypes.Packet, acknowledgement []byte, relayer sdk.AccAddress) error
	OnTimeoutPacket(ctx sdk.Context, channelVersion string, packet channeltypes.Packet, relayer sdk.AccAddress) error
	OnChanOpenInit(ctx sdk.Context, order channeltypes.Order, connectionHops []string, portID string, channelID string, counterparty channeltypes.Counterparty, version string) (string, error)
	OnChanOpenTry(ctx sdk.Context, order channeltypes.Order, connectionHops []string, portID, channelID string, counterparty channeltypes.Counterparty, counterpartyVersion string) (version string, err error)
	OnChanOpenAck(ctx sdk.Context, portID, channelID string, counterpartyChannelID string, counterpartyVersion string) error
	OnChanOpenConfirm(ctx sdk.Context, portID, channelID string) error
}, err error) {
	m, ok := k.PortKeeper.Route(port)
	if !ok {
		return nil, fmt.Errorf("no IBC route for port %s", port)
	}
	return m, nil
}

// OpenConnection writes OPEN connection ends on both chains over the two existing light clients
// (what a completed connection handshake leaves behind).
func OpenConnection(p *State, pk *ibckeeper.Keeper, c *State, ck *ibckeeper.Keeper, l *Link) {
	l.PConn = pk.ConnectionKeeper.GenerateConnectionIdentifier(p.Ctx)
	l.CConn = ck.ConnectionKeeper.GenerateConnectionIdentifier(c.Ctx)
	prefix := commitmenttypes.NewMerklePrefix([]byte("ibc"))
	vers := conntypes.GetCompatibleVersions()
	pk.ConnectionKeeper.SetConnection(p.Ctx, l.PConn, conntypes.NewConnectionEnd(conntypes.OPEN, l.PClient,
		conntypes.NewCounterparty(l.CClient, l.CConn, prefix), vers, 0))
	ck.ConnectionKeeper.SetConnection(c.Ctx, l.CConn, conntypes.NewConnectionEnd(conntypes.OPEN, l.CClient,
		conntypes.NewCounterparty(l.PClient, l.PConn, prefix), vers, 0))
}

func setSeqs(k *ibckeeper.Keeper, ctx sdk.Context, port, ch string) {
	k.ChannelKeeper.SetNextSequenceSend(ctx, port, ch, 1)
	k.ChannelKeeper.SetNextSequenceRecv(ctx, port, ch, 1)
	k.ChannelKeeper.SetNextSequenceAck(ctx, port, ch, 1)
}

// HandshakeArgs lets a scenario deviate from the well-formed CCV handshake.
type HandshakeArgs struct {
	Order   channeltypes.Order
	Version string
	PPort   string
	CPort   string
	PHops   []string // connection hops presented to the provider
	CHops   []string
}

// ChanOpenInit (consumer side): what core does around the application callback.
func ChanOpenInit(c *State, ck *ibckeeper.Keeper, l *Link, a HandshakeArgs) error {
	var err error
	_, pan := c.RunTx(func(ctx sdk.Context) bool {
		cb, e := route(ck, a.CPort)
		if e != nil {
			err = e
			return false
		}
		chID := ck.ChannelKeeper.GenerateChannelIdentifier(ctx)
		cp := channeltypes.NewCounterparty(a.PPort, "")
		v, e := cb.OnChanOpenInit(ctx, a.Order, a.CHops, a.CPort, chID, cp, a.Version)
		if e != nil {
			err = e
			return false
		}
		ck.ChannelKeeper.SetChannel(ctx, a.CPort, chID, channeltypes.NewChannel(channeltypes.INIT, a.Order, cp, a.CHops, v))
		setSeqs(ck, ctx, a.CPort, chID)
		l.CChan = chID
		return true
	})
	if pan != "" {
		return fmt.Errorf("panic: %s", pan)
	}
	return err
}

// ChanOpenTry (provider side).
func ChanOpenTry(p *State, pk *ibckeeper.Keeper, l *Link, a HandshakeArgs, counterpartyChan string) (chID string, err error) {
	_, pan := p.RunTx(func(ctx sdk.Context) bool {
		cb, e := route(pk, a.PPort)
		if e != nil {
			err = e
			return false
		}
		chID = pk.ChannelKeeper.GenerateChannelIdentifier(ctx)
		cp := channeltypes.NewCounterparty(a.CPort, counterpartyChan)
		v, e := cb.OnChanOpenTry(ctx, a.Order, a.PHops, a.PPort, chID, cp, a.Version)
		if e != nil {
			err = e
			return false
		}
		pk.ChannelKeeper.SetChannel(ctx, a.PPort, chID, channeltypes.NewChannel(channeltypes.TRYOPEN, a.Order, cp, a.PHops, v))
		setSeqs(pk, ctx, a.PPort, chID)
		return true
	})
	if pan != "" {
		return "", fmt.Errorf("panic: %s", pan)
	}
	return chID, err
}

// ChanOpenAck (consumer side).
func ChanOpenAck(c *State, ck *ibckeeper.Keeper, port, chID, counterpartyChan, counterpartyVersion string) error {
	var err error
	_, pan := c.RunTx(func(ctx sdk.Context) bool {
		cb, e := route(ck, port)
		if e != nil {
			err = e
			return false
		}
		ch, ok := ck.ChannelKeeper.GetChannel(ctx, port, chID)
		if !ok || ch.State != channeltypes.INIT {
			err = fmt.Errorf("channel %s not in INIT", chID)
			return false
		}
		if e := cb.OnChanOpenAck(ctx, port, chID, counterpartyChan, counterpartyVersion); e != nil {
			err = e
			return false
		}
		ch.State = channeltypes.OPEN
		ch.Version = counterpartyVersion
		ch.Counterparty.ChannelId = counterpartyChan
		ck.ChannelKeeper.SetChannel(ctx, port, chID, ch)
		return true
	})
	if pan != "" {
		return fmt.Errorf("panic: %s", pan)
	}
	return err
}

// ChanOpenConfirm (provider side).
func ChanOpenConfirm(p *State, pk *ibckeeper.Keeper, port, chID string) error {
	var err error
	_, pan := p.RunTx(func(ctx sdk.Context) bool {
		cb, e := route(pk, port)
		if e != nil {
			err = e
			return false
		}
		ch, ok := pk.ChannelKeeper.GetChannel(ctx, port, chID)
		if !ok || ch.State != channeltypes.TRYOPEN {
			err = fmt.Errorf("channel %s not in TRYOPEN", chID)
			return false
		}
		if e := cb.OnChanOpenConfirm(ctx, port, chID); e != nil {
			err = e
			return false
		}
		ch.State = channeltypes.OPEN
		pk.ChannelKeeper.SetChannel(ctx, port, chID, ch)
		return true
	})
	if pan != "" {
		return fmt.Errorf("panic: %s", pan)
	}
	return err
}

// PacketsFromEvents extracts the packets a chain sent (send_packet events).
func PacketsFromEvents(evs []abci.Event) []channeltypes.Packet {
	hasSend := false
	for _, e := range evs {
		if e.Type == channeltypes.EventTypeSendPacket {
			hasSend = true
		}
	}
	if !hasSend {
		return nil
	}
	ps, err := ibctesting.ParsePacketsFromEvents(channeltypes.EventTypeSendPacket, evs)
	if err != nil {
		return nil
	}
	return ps
}

// RecvResult describes one delivery.
type RecvResult struct {
	Ack     []byte
	Success bool
	Events  []abci.Event
	Panic   string
	Err     error
}

// Recv does what core's RecvPacket does around the callback on an ordered channel: checks channel
// state, timeout and sequence, runs the callback on a cache branch written iff the acknowledgement
// is successful, bumps NextSequenceRecv and records the acknowledgement.
func Recv(s *State, k *ibckeeper.Keeper, pkt channeltypes.Packet) RecvResult {
	ctx := s.Ctx
	ch, ok := k.ChannelKeeper.GetChannel(ctx, pkt.DestinationPort, pkt.DestinationChannel)
	if !ok || ch.State != channeltypes.OPEN {
		return RecvResult{Err: fmt.Errorf("destination channel not open")}
	}
	if pkt.TimeoutTimestamp != 0 && uint64(ctx.BlockTime().UnixNano()) >= pkt.TimeoutTimestamp {
		return RecvResult{Err: fmt.Errorf("packet timed out on the receiving chain")}
	}
	if ch.Ordering == channeltypes.ORDERED {
		next, _ := k.ChannelKeeper.GetNextSequenceRecv(ctx, pkt.DestinationPort, pkt.DestinationChannel)
		if next != pkt.Sequence {
			return RecvResult{Err: fmt.Errorf("out of order: next recv %d, packet %d", next, pkt.Sequence)}
		}
	}
	var res RecvResult
	cb, err := route(k, pkt.DestinationPort)
	if err != nil {
		return RecvResult{Err: err}
	}
	// core: sequence bump is written regardless of the ack outcome
	if ch.Ordering == channeltypes.ORDERED {
		k.ChannelKeeper.SetNextSequenceRecv(ctx, pkt.DestinationPort, pkt.DestinationChannel, pkt.Sequence+1)
	} else {
		k.ChannelKeeper.SetPacketReceipt(ctx, pkt.DestinationPort, pkt.DestinationChannel, pkt.Sequence)
	}
	evs, pan := s.RunTx(func(cctx sdk.Context) bool {
		ack := cb.OnRecvPacket(cctx, ch.Version, pkt, relayerAddr)
		if ack == nil {
			res.Err = fmt.Errorf("async acknowledgement not modelled")
			return false
		}
		res.Ack = ack.Acknowledgement()
		res.Success = ack.Success()
		return ack.Success()
	})
	res.Events = evs
	res.Panic = pan
	if pan == "" && res.Ack != nil {
		k.ChannelKeeper.SetPacketAcknowledgement(ctx, pkt.DestinationPort, pkt.DestinationChannel, pkt.Sequence, channeltypes.CommitAcknowledgement(res.Ack))
	}
	return res
}

// AckPacket does what core's Acknowledgement does on the sending chain. An error from the callback
// fails the whole message (nothing is written).
func AckPacket(s *State, k *ibckeeper.Keeper, pkt channeltypes.Packet, ack []byte) (evs []abci.Event, err error, pan string) {
	evs, pan = s.RunTx(func(ctx sdk.Context) bool {
		ch, ok := k.ChannelKeeper.GetChannel(ctx, pkt.SourcePort, pkt.SourceChannel)
		if !ok {
			err = fmt.Errorf("source channel not found")
			return false
		}
		if k.ChannelKeeper.GetPacketCommitment(ctx, pkt.SourcePort, pkt.SourceChannel, pkt.Sequence) == nil {
			err = fmt.Errorf("no commitment: packet already acknowledged or timed out")
			return false
		}
		cb, e := route(k, pkt.SourcePort)
		if e != nil {
			err = e
			return false
		}
		// core: delete the commitment, bump NextSequenceAck, then the callback
		deleteCommitment(s, ctx, pkt)
		if ch.Ordering == channeltypes.ORDERED {
			k.ChannelKeeper.SetNextSequenceAck(ctx, pkt.SourcePort, pkt.SourceChannel, pkt.Sequence+1)
		}
		if e := cb.OnAcknowledgementPacket(ctx, ch.Version, pkt, ack, relayerAddr); e != nil {
			err = e
			return false
		}
		return true
	})
	return evs, err, pan
}

// TimeoutPacket does what core's Timeout does on the sending chain: the commitment is deleted and an
// ordered channel is closed, then the callback runs; a callback error fails the whole message.
func TimeoutPacket(s *State, k *ibckeeper.Keeper, pkt channeltypes.Packet) (evs []abci.Event, err error, pan string) {
	evs, pan = s.RunTx(func(ctx sdk.Context) bool {
		ch, ok := k.ChannelKeeper.GetChannel(ctx, pkt.SourcePort, pkt.SourceChannel)
		if !ok {
			err = fmt.Errorf("source channel not found")
			return false
		}
		if k.ChannelKeeper.GetPacketCommitment(ctx, pkt.SourcePort, pkt.SourceChannel, pkt.Sequence) == nil {
			err = fmt.Errorf("no commitment")
			return false
		}
		cb, e := route(k, pkt.SourcePort)
		if e != nil {
			err = e
			return false
		}
		deleteCommitment(s, ctx, pkt)
		if ch.Ordering == channeltypes.ORDERED {
			ch.State = channeltypes.CLOSED
			k.ChannelKeeper.SetChannel(ctx, pkt.SourcePort, pkt.SourceChannel, ch)
		}
		if e := cb.OnTimeoutPacket(ctx, ch.Version, pkt, relayerAddr); e != nil {
			err = e
			return false
		}
		return true
	})
	return evs, err, pan
}

func deleteCommitment(s *State, ctx sdk.Context, pkt channeltypes.Packet) {
	// the keeper's delete is unexported; remove the key through the store the way the keeper does
	st := ctx.KVStore(s.C.App.GetKey(ibcexported.StoreKey))
	st.Delete(host.PacketCommitmentKey(pkt.SourcePort, pkt.SourceChannel, pkt.Sequence))
}

// RefreshClient stores what a successful MsgUpdateClient leaves behind: a newer latest height and a
// consensus state with the counterparty's latest committed block time. Only an Active client can be
// updated.
func RefreshClient(s *State, k *ibckeeper.Keeper, clientID string, cpHeight int64, cpTime time.Time) bool {
	if s.C.Rec != nil {
		s.C.Rec.Ops = append(s.C.Rec.Ops, RecOp{Refresh: &RefreshOp{ClientID: clientID, Height: cpHeight, Time: cpTime}})
	}
	return refreshClient(s.Ctx, k, clientID, cpHeight, cpTime)
}

func refreshClient(ctx sdk.Context, k *ibckeeper.Keeper, clientID string, cpHeight int64, cpTime time.Time) bool {
	if k.ClientKeeper.GetClientStatus(ctx, clientID) != ibcexported.Active {
		return false
	}
	cs, ok := k.ClientKeeper.GetClientState(ctx, clientID)
	if !ok {
		return false
	}
	tm, ok := cs.(*ibctm.ClientState)
	if !ok {
		return false
	}
	h := clienttypes.NewHeight(tm.LatestHeight.RevisionNumber, uint64(cpHeight))
	if !h.GT(tm.LatestHeight) {
		return false
	}
	tm.LatestHeight = h
	k.ClientKeeper.SetClientState(ctx, clientID, tm)
	k.ClientKeeper.SetClientConsensusState(ctx, clientID, h, ibctm.NewConsensusState(cpTime,
		commitmenttypes.NewMerkleRoot([]byte(ibctm.SentinelRoot)), []byte("verif-next-validators-hash-32byte")))
	return true
}

// ForceRefreshClient is RefreshClient for a gap during which relayers kept the client updated: the
// status check is skipped (the client never went stale in reality), the newest header is stored.
func ForceRefreshClient(s *State, k *ibckeeper.Keeper, clientID string, cpHeight int64, cpTime time.Time) bool {
	if s.C.Rec != nil {
		s.C.Rec.Ops = append(s.C.Rec.Ops, RecOp{Refresh: &RefreshOp{ClientID: clientID, Height: cpHeight, Time: cpTime, Force: true}})
	}
	return forceRefreshClient(s.Ctx, k, clientID, cpHeight, cpTime)
}

func forceRefreshClient(ctx sdk.Context, k *ibckeeper.Keeper, clientID string, cpHeight int64, cpTime time.Time) bool {
	cs, ok := k.ClientKeeper.GetClientState(ctx, clientID)
	if !ok {
		return false
	}
	tm, ok := cs.(*ibctm.ClientState)
	if !ok || !tm.FrozenHeight.IsZero() {
		return false
	}
	h := clienttypes.NewHeight(tm.LatestHeight.RevisionNumber, uint64(cpHeight))
	if !h.GT(tm.LatestHeight) {
		return false
	}
	tm.LatestHeight = h
	k.ClientKeeper.SetClientState(ctx, clientID, tm)
	k.ClientKeeper.SetClientConsensusState(ctx, clientID, h, ibctm.NewConsensusState(cpTime,
		commitmenttypes.NewMerkleRoot([]byte(ibctm.SentinelRoot)), []byte("verif-next-validators-hash-32byte")))
	return true
}

// SortedLinkIDs gives a canonical iteration order over a map of links.
func SortedLinkIDs(m map[string]Link) []string {
	ks := make([]string, 0, len(m))
	for k := range m {
		ks = append(ks, k)
	}
	sort.Strings(ks)
	return ks
}

// ChanOpenTryRaw asks the module routed at routePort about a channel on port portArg (a port it
// is not bound to); nothing is written on acceptance except what the callback itself writes.
func ChanOpenTryRaw(p *State, pk *ibckeeper.Keeper, routePort, portArg string, a HandshakeArgs, counterpartyChan string) (chID string, err error) {
	_, pan := p.RunTx(func(ctx sdk.Context) bool {
		cb, e := route(pk, routePort)
		if e != nil {
			err = e
			return false
		}
		chID = pk.ChannelKeeper.GenerateChannelIdentifier(ctx)
		_, e = cb.OnChanOpenTry(ctx, a.Order, a.PHops, portArg, chID, channeltypes.NewCounterparty(a.CPort, counterpartyChan), a.Version)
		if e != nil {
			err = e
			return false
		}
		return true
	})
	if pan != "" {
		return "", fmt.Errorf("panic: %s", pan)
	}
	return chID, err
}

// ChanOpenInitOn calls OnChanOpenInit of the module bound to port (no channel is written).
func ChanOpenInitOn(s *State, k *ibckeeper.Keeper, port string, order channeltypes.Order, hops []string, cpPort, version string) error {
	var err error
	_, pan := s.RunTx(func(ctx sdk.Context) bool {
		cb, e := route(k, port)
		if e != nil {
			err = e
			return false
		}
		_, err = cb.OnChanOpenInit(ctx, order, hops, port, k.ChannelKeeper.GenerateChannelIdentifier(ctx), channeltypes.NewCounterparty(cpPort, ""), version)
		return false
	})
	if pan != "" {
		return fmt.Errorf("panic: %s", pan)
	}
	return err
}

// ChanOpenAckRaw calls OnChanOpenAck of the module bound to port (nothing is written).
func ChanOpenAckRaw(s *State, k *ibckeeper.Keeper, port, chID, cpChan, version string) error {
	var err error
	_, pan := s.RunTx(func(ctx sdk.Context) bool {
		cb, e := route(k, port)
		if e != nil {
			err = e
			return false
		}
		err = cb.OnChanOpenAck(ctx, port, chID, cpChan, version)
		return false
	})
	if pan != "" {
		return fmt.Errorf("panic: %s", pan)
	}
	return err
}
