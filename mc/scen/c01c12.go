package scen

import (
	"encoding/json"
	"time"

	"verif/mc/engine"
)

func init() {
	registerScenario("vscrelay", func(bz json.RawMessage) (engine.Scenario, error) {
		var c VSCRelay
		if err := json.Unmarshal(bz, &c); err != nil {
			return nil, err
		}
		return c, nil
	})
	units := func(tier string) []Unit {
		d := 4
		if tier == "thorough" {
			d = 6
		}
		us := []Unit{
			Search{Sc: VSCRelay{Variant: "open", Epoch: 1, Delay: 1}, Depth: d + 1},
			Search{Sc: VSCRelay{Variant: "late", Epoch: 1, Delay: 1}, Depth: d + 1},
			Search{Sc: VSCRelay{Variant: "open", Epoch: 2, Delay: 1}, Depth: d + 1},
			Search{Sc: VSCRelay{Variant: "late", Epoch: 1, Delay: 1, Two: true}, Depth: d},
		}
		us = append(us, Search{Sc: VSCRelay{Variant: "batch", Epoch: 1, Delay: 1}, Depth: d + 3})
		us = append(us, Search{Sc: VSCRelay{Variant: "expiry", Epoch: 1, Delay: 1}, Depth: d + 2})
		us = append(us, Search{Sc: VSCRelay{Variant: "latebatch", Epoch: 1, Delay: 1}, Depth: d + 2})
		if tier == "thorough" {
			us = append(us, Search{Sc: VSCRelay{Variant: "open", Epoch: 3, Delay: 2}, Depth: d + 1})
		}
		return us
	}
	xa := append([]string{
		"IBC is ibc-go's real core message server on both chains (handshakes, MsgRecvPacket, MsgAcknowledgement, MsgTimeout: client status, timeouts, sequences, commitments, acknowledgements, rollback are ibc-go's code); only Merkle proof verification is answered by a proof oracle that looks the claimed key up in the counterparty's actual store, and light-client updates are written as consensus states",
		"light clients are refreshed at every block of the host chain (default environment) by writing the consensus state a successful MsgUpdateClient would store; all chains follow one wall clock",
		"a consumer chain is booted through the consumer app's own InitChainer from the genesis the provider recorded",
	}, commonAssumptions...)
	register("C01", func(tier string) CheckSpec {
		budget := 280 * time.Second
		if tier == "thorough" {
			budget = 20 * time.Minute
		}
		return CheckSpec{Level: "model_checking", Rule: searchRule, Assumptions: xa, Budget: budget, Units: units(tier),
			MustSee: []string{"vsc-packet-produced", "batched-delivery", "late-open", "packets-pending-after-block", "consumer-block-with-set:0", "consumer-block-with-set:2", "clients-expired"}}
	})
	register("C12", func(tier string) CheckSpec {
		budget := 280 * time.Second
		if tier == "thorough" {
			budget = 20 * time.Minute
		}
		return CheckSpec{Level: "model_checking", Rule: searchRule, Assumptions: xa, Budget: budget, Units: append(units(tier), c12Extra(tier)...),
			MustSee: []string{"vsc-packet-produced", "consumer-block-with-set:2"}}
	})
}
