package scen

import (
	"encoding/json"
	"time"

	"verif/mc/engine"
)

func init() {
	registerScenario("provvalset", func(bz json.RawMessage) (engine.Scenario, error) {
		var c ProvValSet
		var raw struct {
			M             int64
			MaxValidators uint32
		}
		if err := json.Unmarshal(bz, &raw); err != nil {
			return nil, err
		}
		c.M, c.MaxVals = raw.M, raw.MaxValidators
		return c, nil
	})
	register("C15", func(tier string) CheckSpec {
		depth := 4
		budget := 150 * time.Second
		if tier == "thorough" {
			depth, budget = 6, 20*time.Minute
		}
		var us []Unit
		for _, mv := range []uint32{3, 4} {
			for _, m := range []int64{1, 2, 3, 5} {
				us = append(us, Search{Sc: ProvValSet{M: m, MaxVals: mv}, Depth: depth})
			}
		}
		return CheckSpec{Level: "model_checking", Rule: searchRule, Assumptions: commonAssumptions, Budget: budget, Units: us,
			MustSee: []string{"cut-at-M", "updates:1", "updates:2", "setsize:1", "setsize:3"}}
	})
}
