package scen

import (
	"encoding/json"
	"time"

	"verif/mc/engine"
)

func init() {
	registerScenario("stop", func(bz json.RawMessage) (engine.Scenario, error) {
		var c Stop
		if err := json.Unmarshal(bz, &c); err != nil {
			return nil, err
		}
		return c, nil
	})
	register("C11", func(tier string) CheckSpec {
		depth, budget := 5, 280*time.Second
		if tier == "thorough" {
			depth, budget = 7, 20*time.Minute
		}
		return CheckSpec{Level: "model_checking", Rule: searchRule, Assumptions: append([]string{
			"IBC core's proof verification and ordered-channel bookkeeping are replaced by the harness Net shim (a timeout closes the ordered channel before the callback, as ibc-go v10 does)",
			"an error acknowledgement and a counterparty channel close are injected by the shim (a provider never produces a packet an honest consumer rejects)",
			"the slash ack of the fixture is seeded through the keeper (its real path is judged by C08)",
		}, commonAssumptions...), Budget: budget,
			Units:   []Unit{Search{Sc: Stop{Variant: "base"}, Depth: depth}, Search{Sc: Stop{Variant: "latechan"}, Depth: depth}},
			MustSee: []string{"stopped-by:remove", "stopped-by:timeout", "stopped-by:errorack", "stopped-by:P.block", "checked-while-stopped", "deleted", "channel-opened-after-stop"}}
	})
}
