package scen

import (
	"encoding/json"
	"time"

	"verif/mc/engine"
)

func init() {
	registerScenario("keys", func(bz json.RawMessage) (engine.Scenario, error) {
		var c Keys
		if err := json.Unmarshal(bz, &c); err != nil {
			return nil, err
		}
		return c, nil
	})
	spec := func(tier string) CheckSpec {
		depth, budget := 5, 270*time.Second
		if tier == "thorough" {
			depth, budget = 6, 20*time.Minute
		}
		return CheckSpec{Level: "model_checking", Rule: searchRule, Assumptions: commonAssumptions, Budget: budget,
			Units: []Unit{Search{Sc: Keys{Variant: "base"}, Depth: depth}, Search{Sc: Keys{Variant: "removal"}, Depth: depth + 1}},
			MustSee: []string{"assign:mustReject=true,accepted=false", "assign:mustReject=false,accepted=true", "create:mustReject=true,accepted=false",
				"create:mustReject=false,accepted=true", "replaced-on-launched", "replaced-before-launch", "checked-replaced-key-resolution", "validator-removed", "replaced-key-of-removed-validator-still-reserved"}}
	}
	register("C05", spec)
	register("C06", spec)
}
