# Offline Go environment for the harness (sourced by setup.sh and check).
# Do NOT set GOSUMDB=off or GOTOOLCHAIN=local: /repo/go.mod needs the cached go1.23.6 toolchain switch.
export GOFLAGS=-mod=mod
export GOPROXY=off
unset GOSUMDB
case "${GOTOOLCHAIN:-}" in local) unset GOTOOLCHAIN ;; esac
