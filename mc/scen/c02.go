package scen

import (
	"encoding/json"
	"time"

	"verif/mc/engine"
)

func eligibilityUnits(depth int) []Unit {
	var us []Unit
	for _, set := range []string{"A", "B"} {
		for _, mv := range []uint32{3, 4} {
			for _, m := range []int64{1, 2, 4} {
				us = append(us, Search{Sc: Eligibility{M: m, MaxVals: mv, Set: set, Epoch: 1}, Depth: depth})
			}
		}
	}
	us = append(us, Search{Sc: Eligibility{M: 2, MaxVals: 4, Set: "A", Epoch: 3}, Depth: depth + 1})
	return us
}

func init() {
	registerScenario("eligibility", func(bz json.RawMessage) (engine.Scenario, error) {
		var raw struct {
			M             int64
			MaxValidators uint32
			Set           string
			Epoch         int64
		}
		if err := json.Unmarshal(bz, &raw); err != nil {
			return nil, err
		}
		return Eligibility{M: raw.M, MaxVals: raw.MaxValidators, Set: raw.Set, Epoch: raw.Epoch}, nil
	})
	register("C02", func(tier string) CheckSpec {
		depth, budget := 3, 270*time.Second
		if tier == "thorough" {
			depth, budget = 5, 20*time.Minute
		}
		return CheckSpec{Level: "model_checking", Rule: searchRule, Assumptions: commonAssumptions, Budget: budget, Units: append(eligibilityUnits(depth), Search{Sc: Keys{Variant: "removal"}, Depth: depth + 3}),
			MustSee: []string{"member", "member-with-assigned-key", "excluded-only-because-inactive", "excluded-by-lists", "excluded-by-minstake", "excluded-not-bonded", "launch-checked", "non-epoch-block"}}
	})
}
